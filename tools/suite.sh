#!/bin/bash
# runs the repository's suite (guard off) and prints the summary line; expects 714 passed, 3 failed (always-failing)
cd ${1:-/repo} && env -u PRECONDITION_VERIF /venv/bin/python -m pytest -q -p no:cacheprovider --timeout=900 --continue-on-collection-errors -x --deselect precondition/distributed_shampoo_test.py::DistributedShampooTest::test_matrix_inverse_root_padding1 --deselect precondition/tearfree/momentum_test.py::MomentumTest::test_basic0 --deselect precondition/tearfree/optimizer_test.py::OptimizerTest::test_lr 2>&1 | tail -3
