import json,os
M = {
 "C01_m3": ("C01","eigh root: ridge also added on the padding diagonal (identity mask dropped)","eigh=True + real padding + rank-deficient input",["C01"],"caught (root not zero on padding)"),
 "C01_m4": ("C01","Newton: exponent converted to float32 once (alpha, z, H_0) while mat_power keeps the integer","x64, p in {3,5,6,7}, matrix scale away from 1",["C01"],"caught by the honesty clause (slack scales with kappa*eps64)"),
 "C02_m3": ("C02","stored Shampoo momentum overwritten by the selected (graft) momentum during warm-up","beta1>0, start step >= 1, reaching the switch step",["C02"],"caught"),
 "C02_m4": ("C02","decoupled weight decay no longer multiplied by the learning rate when the learning rate is coupled","weight_decay != 0 + decoupled_weight_decay + coupled learning rate",["C02"],"caught (interacting pair in the option table)"),
 "C03_m3": ("C03","quantized path selects with a default threshold of 0.1 instead of the configured one","pmap+quantized and inverse_failure_threshold < 0.1",["C03"],"caught (thresholds 0 and 1e-30)"),
 "C03_m4": ("C03","eigh root reports a relative error behind a NaN-swallowing guard","eigh=True + NaN/Inf/overflowing gradient",["C03"],"caught"),
 "C04_m3": ("C04","Sketchy EKFAC path does not restore the tail on off-schedule steps","ekfac_svd=True, update_freq>1, rank below the number of singular values",["C04"],"missed at first (no EKFAC configuration); C04 gained the tf_sketchy_ekfac replay"),
 "C04_m4": ("C04","scheduled interval: dispatcher receives the base interval","replicated + scheduled interval + base interval 1",["C04"],"caught by the scheduled replicated grid"),
 "C05_m3": ("C05","exclusion rules evaluated on the merged shape","merging on + skip_preconditioning_rank_lt>=2 + a matrix that merges to a vector",["C02","C05"],"C02 caught it at once; C05 gained a merged-shape skip variant and an explicit exclusion-rule message"),
 "C05_m4": ("C05","zero preconditioned gradient replaced by the grafting step","low-rank compression with every root rejected (zero initial preconditioner)",["C05"],"missed at first; C05 gained the comp+2/thr0 representation"),
 "C07_m3": ("C07","partition-spec tree counts statistics of excluded parameters (static index_start differs)","sharded + an excluded parameter before another one",["C07"],"missed at first (only leaves were compared); C07 now compares the static row bookkeeping of the three sharded trees on a tree with the bias first"),
 "C07_m4": ("C07","Sketchy EKFAC buffer rebuilt from the rank-truncated spectrum (shape [k] instead of [m])","ekfac_svd=True with sketch rank below a dimension",["C07"],"missed at first (three deviations from the Shampoo default); Sketchy became its own configuration family"),
 "C09_m3": ("C09","FD root treats an escaped mass <= 1e-6 as empty","small gradients (eigenvalues below 1e-6), history of rank > k",["C09"],"caught (tail recurrence / const / has_zeros)"),
 "C09_m4": ("C09","OCO: whole carried sketch multiplied by the per-step factor","RFD_SON / FD_SON, at least two steps",["C09","C16"],"caught by both"),
 "C13_m3": ("C13","sharded: errors[-to_pad:] zeroed, which is every error when no padding is needed","sharded + declared count dividing the number of statistics + a failing root",["C13"],"caught (failing-root event added after wave 1)"),
 "C13_m4": ("C13","sharded init: row counter advanced for excluded parameters","sharded + an excluded parameter with shapes before a preconditioned one",["C07","C02","C13"],"C07 and C02 caught it; C13 gained the skipfirst variant"),
 "C14_m3": ("C14","QuantizedValue gains a static float_dtype that is not serialized","integer-quantized momentum, restore into a fresh template",["C14"],"caught (restored tree structure differs)"),
 "C14_m4": ("C14","sharded shape_and_dtype_fn advances the row counter for excluded parameters","sharded + restore into the declared target + excluded parameter first",["C07","C14"],"C07 caught it (static bookkeeping); C14 gained ds_sharded_declared, which restores into the target built from shape_and_dtype_fn"),
 "C15_m3": ("C15","Sketchy relative epsilon scaled by the top singular value instead of the top covariance eigenvalue","small gradients or epsilon >= 1e-2",["C15"],"caught (epsilon options)"),
 "C15_m4": ("C15","masking rules evaluated on the non-unit dims","a leaf of rank >= 2 with at most one non-unit dim, e.g. (1,5)",["C15"],"missed at first; tree T2 gained the leaf (1,5)"),
}
for sid,(prop,what,needs,det,note) in M.items():
    d='/verif/seeded/'+sid
    conf=open(d+'/confirm.log').read() if os.path.exists(d+'/confirm.log') else ''
    meta={"id":sid,"property":prop,"written_by":"independent sub-agent (third wave: given the property text, a focus area and its own scratch worktree)",
          "what":what,"needs_to_manifest":needs,"detected_by":det,"note":note,
          "confirmed":{"how":"tools/confirm_seed.sh %s (fresh scratch worktree of /repo HEAD under /tmp, removed afterwards)"%sid,
                       "demo_on_clean_tree_exit":0 if "demo_clean_exit=0" in conf else None,
                       "demo_with_patch_exit":1 if "demo_mutant_exit=1" in conf else None,
                       "repository_suite_with_patch":[l for l in conf.splitlines() if l.startswith('suite:')][0][7:] if 'suite:' in conf else None},
          "checks_run":"tools/mut.py --checks %s --patch seeded/%s/patch.diff  (quick tier, scratch copy through VERIF_REPO): exit 1 with VIOLATION lines for every check listed in detected_by" % (",".join(det),sid)}
    json.dump(meta,open(d+'/meta.json','w'),indent=1)
print(len(M))
