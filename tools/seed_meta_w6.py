import json,os
M = {
 "C01_m7": ("C01","root working dtype frozen at import time (canonicalize_dtype(float64) as a module constant)","jax_enable_x64 switched on after the library was imported",["C01"],"missed at first (x64 only through the environment variable); workers gained the x64_late profile (import, then jax.config.update) and C01 the x64late tasks"),
 "C01_m8": ("C01","Newton iteration warm-started from prev: M_0 = prev^p(A+dI) does not commute with A+dI, so the reported error no longer belongs to the returned matrix","a prev that is the root of a nearby matrix with other eigenvectors (reuse_preconditioner from the second refresh on)",["C01"],"missed at first (prev never passed); C01 gained the prev tasks"),
 "C02_m7": ("C02","pmap branch takes padding_start from replica 0 for every replica","pmap over > 1 device, statistics of different sizes at the same slot of different replicas, the smaller one on replica 0",["C02","C08"],"missed at first by C02 (pmap only on the tree where replica 0 holds the larger statistic); C02 gained pmap on tree T1 (sizes 2,3,3)"),
 "C02_m8": ("C02","1x1 statistics get an absolute ridge after a rename (size-1 special case missed)","every statistic 1x1 (block_size 1), relative ridge, small statistics",["C02"],"caught (block_size=1 option)"),
 "C03_m7": ("C03","accept/keep threshold compared in the root dtype: under x64 a threshold that float32 rounds down lets the skip-step sentinel pass","jax_enable_x64, interval > 1, threshold such as 0.7 or 0.01",["C03"],"missed at first (thresholds 0, 1e-30, 0.1, 1e30 only; x64 only with interval 1 in quick); C03 gained x64 tasks with thresholds 0.7 and 0.01 at interval 2"),
 "C03_m8": ("C03","eigh root: guard for null eigenvalues replaced by maximum(e, ridge)**alpha","eigh, matrix_epsilon 0, singular statistic",["C03"],"caught (non-finite preconditioner stored)"),
 "C04_m7": ("C04","sharded refresh computes the roots from the previous step's statistics","sharded mode; a check of the refreshed value, not only of the cadence",["C04"],"caught (refreshed preconditioner is not the root of the current statistics)"),
 "C04_m8": ("C04","quantized statistics re-quantized on off-schedule steps (bucket sizes move by one ulp)","quantized pmap mode, statistics interval > 1, a particular history (step 11 in the check)",["C04"],"caught (bit comparison of all three quantized leaves)"),
 "C05_m7": ("C05","SQRT_N graft: copysign(ones, g) instead of ones*sign(g)","graft type SQRT_N and exactly-zero gradient entries",["C05"],"caught (g0 event)"),
 "C05_m8": ("C05","module-level cache of the optax Adafactor chain keyed without min_dim_size_to_factor","two ADAFACTOR-grafted tearfree optimizers in one process differing only in min_dim_size_to_factor",["C05"],"missed at first; C05's tearfree tasks gained the process-history dimension (neighbouring grafting hyper-parameters built and stepped first)"),
 "C06_m7": ("C06","Preconditioner stores the block-shape product as a one-shot iterator: the second shapes_for_preconditioners() returns []","the same Preconditioner object asked twice (sharded init/spec functions)",["C06"],"missed at first; C06 now asks every Preconditioner twice"),
 "C06_m8": ("C06","reshaper merge pads into a buffer of the parameter dtype","an update wider than its parameter (float32 next to bfloat16) on a padded leaf",["C06"],"missed at first; C06's reshaper round trip gained the mixed-dtype case"),
 "C07_m7": ("C07","FD-metrics placeholder guarded by generate_training_metrics and generate_fd_metrics","frequent directions with generate_fd_metrics=True and generate_training_metrics=False",["C07"],"caught (layout cluster)"),
 "C07_m8": ("C07","replica count taken from jax.device_count() instead of the pmap axis","a host with more devices than the pmap axis spans",["C07"],"missed at first (2 host devices, axis of size 2; C13 crashed on it without a verdict); C07's workers now have 3 host devices and a batch axis of 2"),
 "C08_m7": ("C08","every replica masks its statistics with replica 0's padding starts","pmap over >= 2 devices, statistics of different sizes",["C08"],"caught (pmap differential)"),
 "C08_m8": ("C08","roots accepted or rejected per parameter instead of per statistic","a root failure in one block of a blocked tensor",["C08"],"caught (overflowing-block vectors added in wave 5)"),
 "C09_m7": ("C09","pmap branch feeds replica 0's previous sketches to every replica","frequent directions under pmap over >= 2 devices, >= 2 statistics, >= 2 steps",["C13","C09"],"C13 caught it; C09 missed it (public optimizer only on one device) and gained ds_public under pmap over 2 devices"),
 "C09_m8": ("C09","Sketchy relative epsilon from the root-factor singular value instead of the largest undeflated eigenvalue","relative epsilon, escaped mass / scale away from 1",["C09"],"caught (stored inverse roots)"),
 "C10_m7": ("C10","packed storage pinned to float32","jax_enable_x64 with float64 data",["C10"],"caught (x64 root tasks, 1e-8)"),
 "C10_m8": ("C10","tail mean over the non-zero entries instead of the unpadded dimensions","ridge 0 and exactly-zero eigenvalues in unpadded dimensions",["C10"],"missed at first (every ridge positive); C10 gained the zero-ridge tasks on diagonal statistics with trailing zeros"),
 "C11_m7": ("C11","dequantized statistic symmetrized before the new Gram matrix is added","quantized pmap mode, >= 2 statistics updates, rows of different scale",["C11"],"missed at first; C11's ds_carry gained the statistics equation (stored statistic within half a bucket per column of w1*dequantize(previous) + w2*GG^T) and the zero-gradient no-drift clause"),
 "C11_m8": ("C11","sharded shape_and_dtype_fn declares the int8 momentum's bucket sizes as shape[-1:]","sharded + quantized + a parameter of rank >= 3",["C07","C11"],"C07 caught it; C11 missed it and gained the sharded declared-layout task"),
 "C12_m7": ("C12","accumulators created in the parameter dtype (bfloat16)","bfloat16 parameters and gradients, an accumulator 256 times a later g^2",["C12"],"missed at first (float32 only); C12 gained bfloat16 tasks with exactly representable events"),
 "C12_m8": ("C12","nan_to_num on the new statistic: +inf becomes the float32 maximum","a gradient entry whose square overflows float32",["C12"],"missed at first; C12 gained the overflow event"),
 "C13_m7": ("C13","preconditioners gathered with a one-hot psum: 0*NaN leaks across replicas","pmap over >= 2 devices and a non-finite root on one replica",["C13"],"caught (gBig1 event)"),
 "C13_m8": ("C13","sharded update: filler matrices in the default dtype","sharded + x64 + declared device count not dividing the number of statistics",["C13"],"caught"),
 "C14_m7": ("C14","QuantizedValue.to_float guard rewritten with isinstance(jnp.ndarray): NumPy leaves return raw codes","restored state used as deserialized (NumPy leaves), eager stepping, a quantized leaf",["C14"],"missed at first; C14 gained sm3_eager"),
 "C14_m8": ("C14","root working dtype decided from jax_enable_x64 at import time","training process enables x64 after the import, resuming process has it from the start",["C14"],"missed at first; C14 gained ds_full_x64late (x64-late parent, x64-early fresh-process child)"),
 "C15_m7": ("C15","Sketchy branch drops the configured merge limit","Sketchy with a non-default merge_dims",["C15"],"caught"),
 "C15_m8": ("C15","skip rule masks leaves whose largest dim equals the limit","a leaf with a dim exactly equal to skip_preconditioning_any_dim_gt",["C15"],"caught"),
 "C16_m7": ("C16","shared sqrt(eta_t) helper puts lr under the t-decay power","FD_SON with lr != 1",["C16"],"caught (bracket)"),
 "C16_m8": ("C16","bound init_fn hands out the same dict on every call (updates mutate it in place)","one bound (init, update) pair reused for two eager runs",["C16"],"missed at first; every C16 task now does an eager run on init() first and starts the exploration from a second init()"),
 "C17_m7": ("C17","create_groups accumulates into a mutable default argument","a second create_redist_dict call in the same process",["C17"],"caught (every task makes many calls in one process)"),
 "C17_m8": ("C17","unit resource = resource / max(total, 1e-30)","one group with scores more than 2^53 apart",["C17"],"missed at first; C17 gained the float64-adversarial sub-lattice"),
}
for sid,(prop,what,needs,det,note) in M.items():
    d='/verif/seeded/'+sid
    conf=open(d+'/confirm.log').read() if os.path.exists(d+'/confirm.log') else ''
    meta={"id":sid,"property":prop,"written_by":"independent sub-agent (sixth wave: given the property text, the list of changes already delivered for it, a focus area and its own scratch worktree)",
          "what":what,"needs_to_manifest":needs,"detected_by":det,"note":note,
          "confirmed":{"how":"tools/confirm_seed.sh %s (fresh scratch worktree of /repo HEAD under /tmp, removed afterwards)"%sid,
                       "demo_on_clean_tree_exit":0 if "demo_clean_exit=0" in conf else None,
                       "demo_with_patch_exit":1 if "demo_mutant_exit=1" in conf else None,
                       "repository_suite_with_patch":[l for l in conf.splitlines() if l.startswith('suite:')][0][7:] if 'suite:' in conf else None},
          "checks_run":"tools/mut.py --checks %s --patch seeded/%s/patch.diff  (quick tier, scratch copy through VERIF_REPO): exit 1 with VIOLATION lines for every check listed in detected_by" % (",".join(det),sid)}
    json.dump(meta,open(d+'/meta.json','w'),indent=1)
print(len(M))
