#!/bin/bash
# tools/seeded.sh <seed-id> [check ids...]  - apply seeded/<id>/patch.diff to /repo, run the checks named in
# meta.json (or given), undo the patch straight afterwards. Never leaves /repo modified.
set -u
cd "$(dirname "$0")/.."
id=$1; shift
dir=seeded/$id
[ -f $dir/patch.diff ] || { echo "no $dir/patch.diff"; exit 2; }
if [ -n "$(git -C /repo status --porcelain --untracked-files=no)" ]; then echo "/repo has local changes, refusing"; exit 2; fi
checks="$*"
[ -z "$checks" ] && checks=$(python3 -c "import json;print(' '.join(json.load(open('$dir/meta.json'))['detected_by']+json.load(open('$dir/meta.json')).get('also_run',[])))")
git -C /repo apply $PWD/$dir/patch.diff || { echo "patch does not apply"; exit 2; }
trap 'git -C /repo checkout -- . ' EXIT
for c in $checks; do
  out=$(./check $c --tier ${TIER:-quick} --no-evidence 2>&1); rc=$?
  echo "seed=$id check=$c exit=$rc violations=$(echo "$out" | grep -c '^VIOLATION')"
  echo "$out" | grep "detail:" | head -2 | cut -c1-300
done
