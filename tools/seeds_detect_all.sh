#!/bin/bash
# For every seeded/<id>: run the quick check of its own property (and the other checks named in meta.json) against a scratch
# copy with the patch applied; one line per (seed, check).  P=<n> runs n seeds in parallel.  Output: scratch/seeds_detect.log
cd "$(dirname "$0")/.."
one() {
  d=seeded/$1; [ -f $d/patch.diff ] || exit 0
  own=${1%%_*}
  checks=$(python3 -c "import json,sys;m=json.load(open('$d/meta.json'));c=m.get('detected_by',[]);print(','.join(['$own']+[x for x in c if x!='$own']))" 2>/dev/null || echo $own)
  tools/mut.py --checks $checks --patch $d/patch.diff 2>&1 | grep "^CHECK" | sed "s/^/$1 /"
}
export -f one
ls seeded | grep -E "^C[0-9]+_m[0-9]+$" | grep -E "${FILTER:-.}" | xargs -P ${P:-3} -I{} bash -c 'one {}' | tee scratch/seeds_detect.log
echo "own-check misses:"; awk '{split($1,a,"_"); if ($3==a[1] && $4!="exit=1") print}' scratch/seeds_detect.log
