#!/bin/bash
# runs every claimed quick check for several VERIF_SEED values; prints one line per run
cd "$(dirname "$0")/.."
ids=$(python3 -c "import json; print(' '.join(c['property_id'] for c in json.load(open('MANIFEST.json'))['checks']))")
for sd in ${SEEDS:-1 2 5}; do
  for id in ${IDS:-$ids}; do
    out=$(VERIF_SEED=$sd ./check $id --tier ${TIER:-quick} --no-evidence 2>&1); rc=$?
    echo "seed=$sd $id exit=$rc $(echo "$out" | grep -c '^VIOLATION') violations; $(echo "$out" | tail -1 | cut -c1-160)"
    if [ $rc -ne 0 ]; then echo "$out" | grep -E "detail|INFRA|NONDET" | head -3 | cut -c1-500; fi
  done
done
