#!/bin/bash
# runs, for every seeded/<id>, the checks named in its meta.json against a scratch copy with the patch applied
cd "$(dirname "$0")/.."
for d in ${SEEDS:-seeded/*/}; do
  id=$(basename $d)
  [ -f $d/meta.json ] || continue
  checks=$(python3 -c "import json;print(','.join(json.load(open('$d/meta.json'))['detected_by']))")
  tools/mut.py --checks $checks --patch $d/patch.diff 2>&1 | grep "^CHECK" | sed "s/^/$id /"
done
