import json,os
M = {
 "C01_m5": ("C01","matrix_inverse_pth_root: on the LOBPCG route the error of the deflated problem is reported instead of the residual of the original matrix (wrong variable in the padding_start block)","lobpcg_topk_precondition > 0, padding_start passed, unconverged LOBPCG eigenpairs",["C01"],"caught (honesty clause on the LOBPCG tasks)"),
 "C01_m6": ("C01","Newton loop control: budget exhaustion treated as non-convergence, so the previous iterate is returned with the residual of the last one","a direct call with num_iters a few steps short of convergence",["C01"],"missed at first (num_iters was never varied); C01 gained Newton iteration budgets {4,8,12} (2..16 thorough)"),
 "C02_m5": ("C02","sharded init: the inverse-root exponent is computed in the first loop and leaks into the second, every leaf gets the last leaf's exponent","sharded + leaves with different numbers of preconditioned axes, the differing one not last",["C02"],"caught (sharded, merging off)"),
 "C02_m6": ("C02","RMSProp graft divides by sqrt(v) + matrix_epsilon instead of diagonal_epsilon","RMSProp graft and epsilons that matter relative to sqrt(v)",["C02"],"caught (2e-4 tolerance on the scalar leaf)"),
 "C03_m5": ("C03","inverse_failure_threshold = threshold or default: a configured 0 becomes 0.1","inverse_failure_threshold exactly 0",["C03"],"caught (threshold 0 configurations)"),
 "C03_m6": ("C03","replicated pmap selection reads the errors from the wrong end of the padded work list","float32 pmap, device count not dividing the number of statistics, a failing root on a refresh step",["C13","C03"],"C13 caught it at once; C03 missed it (pmap only with quantization on one device) and gained the pmap3 mode (4 statistics on 3 devices)"),
 "C04_m5": ("C04","replicated path: diagnostics gated on the configured interval instead of the scheduled one","replicated float32, metrics on, learning-rate-scheduled interval that has moved away from the start interval",["C04"],"caught (scheduled replicated grid)"),
 "C04_m6": ("C04","tearfree Shampoo: preconditioner modulo test on count+1","update_preconditioners_freq > 1",["C04"],"caught (tearfree grid)"),
 "C05_m5": ("C05","norm transplant adds diagonal_epsilon instead of the tiny constant to the preconditioned norm","tiny preconditioned gradients or a large user-chosen diagonal_epsilon",["C02","C05"],"C02 caught it (diagonal_epsilon option); C05 missed it and gained the grafting hyper-parameter variants (diagonal epsilon 1e-3, decay 1, tiny gradients after ordinary ones)"),
 "C05_m6": ("C05","tearfree RMSProp graft: accumulator rewritten as w1*prev + (1-decay)*g^2, which never advances for decay 1","grafting_type RMSPROP with graft decay exactly 1.0",["C15","C05"],"C15 caught it (graft_decay 1.0 option); C05 missed it and gained the decay-1 tearfree tasks"),
 "C06_m5": ("C06","Preconditioner merges small dims up to the block size instead of the merge limit","merge_small_dims_block_size != block_size and adjacent dims whose product lies between them",["C06"],"caught (announced shapes vs blocks)"),
 "C06_m6": ("C06","tearfree _blockify unpacks the blocks-per-axis pair swapped","two blocked axes with different block counts",["C06"],"caught (round trip)"),
 "C07_m5": ("C07","np.sqrt of a static size in the RMSProp-graft clipping branch: a strong float64 under jax_enable_x64","jax_enable_x64 + RMSPROP graft + clip_by_scaled_gradient_norm",["C07"],"missed at first (C07 never ran under x64); C07 gained the x64 dimension (2-deviation distributed_shampoo, sm3, tearfree, layout cluster), which also exposed two genuine defects (sm3 and frequent directions under x64, fixed) and one known finding (tearfree under x64)"),
 "C07_m6": ("C07","stat_dtype = packed_statistics[0].dtype hoisted above the empty-list guard","every leaf excluded from preconditioning",["C07"],"caught (internal IndexError)"),
 "C08_m5": ("C08","exponent hoisted above the per-parameter loop and never reset: later parameters reuse the first one's exponent","two preconditioned parameters of different rank, the differing one first in flatten order, exponent_override 0",["C02","C08"],"C02 caught it; C08 missed it (every companion sorted after the blocked tensor) and gained a companion whose key sorts first"),
 "C08_m6": ("C08","tearfree: isfinite guard over all blocks of an axis instead of per block","a blocked tensor with one block whose root goes non-finite (Gram matrix overflow)",["C08"],"missed at first (scales only within 2^+-20); C08 gained one-block-at-a-time overflow scale vectors, the overflowing block itself is not judged"),
 "C09_m5": ("C09","FD root: padding mask one row/column too wide (<= instead of <)","padding with the identity block the optimizer pads with, (k+1)-th eigenvalue below 1",["C09"],"caught (lossless clause)"),
 "C09_m6": ("C09","FD root: decay inlined into new_tail, the stored inverse roots still use the undecayed tail","decay < 1 and escaped mass carried in",["C09"],"caught (stored inverse roots)"),
 "C10_m5": ("C10","_should_compress uses <= at the boundary d == |r|+2 while _precond_dim keeps the dense shape","compression_rank != 0, an axis of size exactly |r|+2 next to a larger statistic",["C10"],"missed at first (nothing went through the optimizer); C10 gained public-optimizer tasks with axes at, above and below the boundary"),
 "C10_m6": ("C10","compressed branch of _precondition_block uses swapaxes(0, rank-1) instead of the roll","rank-3 block with a compressed axis",["C10"],"caught (application cases)"),
 "C11_m5": ("C11","quantized pmap path: carried preconditioner's bucket sizes overwritten with its diagonal","quantized pmap mode, a preconditioner computed once and then carried (interval > 1 or failed root)",["C03","C04","C11"],"C03 and C04 caught it; C11 missed it and gained ds_carry (every stored QuantizedValue is a fixed point of dequantize -> quantize; carried preconditioners keep their bits)"),
 "C11_m6": ("C11","extracted diagonal clamped at 0","extract_diagonal with a negative diagonal entry, integer storage",["C11"],"caught (diagonal pool has negative entries)"),
 "C12_m5": ("C12","rank>=2 update rewritten as an interpolation that collapses to g^2 when beta2 == 1","beta2 == 1, rank >= 2, two steps",["C12"],"caught (cover)"),
 "C12_m6": ("C12","momentum weight reads beta2 instead of beta1","beta2 == 1 with 0 < beta1 < 1",["C12"],"missed at first (the step was only judged without momentum); C12 gained the momentum step bound (momentum average of diagonal AdaGrad's steps; rank 1 equal)"),
 "C13_m5": ("C13","filler matrices spread over the devices while consumers assume they are at the end","D >= 3, N > D, N mod D not in {0, D-1}",["C13"],"caught (N=5, D=4)"),
 "C13_m6": ("C13","every replica uses row 0 of the batched exponents","D >= 2 and a tree mixing parameter ranks",["C13"],"caught"),
 "C14_m5": ("C14","initial learning rate cached in a Python list inside the closure on the first update call","scheduled (decaying) refresh interval + update stepped without jit + restore at k >= 1",["C14"],"missed at first (every optimizer was jitted); C14 gained ds_sched_decay_eager (op-by-op update)"),
 "C14_m6": ("C14","count initialised as jnp.asarray(0): weakly typed, lost on any serialization round trip","a schedule + jax_enable_x64 (or bfloat16 parameters with coupled learning rate)",["C14"],"missed at first (no x64 optimizer); C14 gained ds_sched_x64"),
 "C15_m5": ("C15","Shampoo root fast paths; the generic fallback forgets the factor 2 in the exponent","a parameter with >= 3 axes after merging",["C15"],"caught (rank-3 leaf)"),
 "C15_m6": ("C15","_deblockify inserts the right-blocks axis at blocks_axis + 2","two blocked axes separated by a small axis, >= 2 blocks on the right one",["C06","C15"],"C06 caught it; C15 missed it and gained the (6,2,6) leaf"),
 "C16_m5": ("C16","ADA zero guard rewritten with isclose (absolute 1e-8)","ADA, delta below 1e-8 and gradient entries of 1e-4 or smaller",["C16"],"missed at first (tiny scale only for S_ADA); C16 gained tiny-scale tasks (2^-12, 2^-24; delta 0 and 2^-44) for every algorithm"),
 "C16_m6": ("C16","FD shrink skipped when the sketch size equals the dimension","sketch size == dimension and a full-rank history",["C16"],"caught (last sketch row)"),
 "C17_m5": ("C17","round-up helper rewritten as math.ceil: a zero share gets rank 0","base rank > 1 and some exactly-zero scores next to positive ones",["C17"],"caught"),
 "C17_m6": ("C17","score-less group keeps the uniform allocation without the dimension cap","a group whose scores are all zero and whose dimension is below the base rank",["C17"],"caught"),
}
for sid,(prop,what,needs,det,note) in M.items():
    d='/verif/seeded/'+sid
    conf=open(d+'/confirm.log').read() if os.path.exists(d+'/confirm.log') else ''
    meta={"id":sid,"property":prop,"written_by":"independent sub-agent (fifth wave: given the property text, a focus area away from earlier seeds and its own scratch worktree)",
          "what":what,"needs_to_manifest":needs,"detected_by":det,"note":note,
          "confirmed":{"how":"tools/confirm_seed.sh %s (fresh scratch worktree of /repo HEAD under /tmp, removed afterwards)"%sid,
                       "demo_on_clean_tree_exit":0 if "demo_clean_exit=0" in conf else None,
                       "demo_with_patch_exit":1 if "demo_mutant_exit=1" in conf else None,
                       "repository_suite_with_patch":[l for l in conf.splitlines() if l.startswith('suite:')][0][7:] if 'suite:' in conf else None},
          "checks_run":"tools/mut.py --checks %s --patch seeded/%s/patch.diff  (quick tier, scratch copy through VERIF_REPO): exit 1 with VIOLATION lines for every check listed in detected_by" % (",".join(det),sid)}
    json.dump(meta,open(d+'/meta.json','w'),indent=1)
print(len(M))
