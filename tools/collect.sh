#!/bin/bash
# tools/collect.sh <wave-prefix> <property-id>: copies /tmp/<prefix>_<id>/MUTANT_{1,2} into seeded/<id>_m<next>, removes the
# agent's worktree, and runs the property's quick check against each patch (scratch copy, tools/mut.py).
cd "$(dirname "$0")/.."
pre=$1; id=$2; src=/tmp/${pre}_$id
max=$(ls -d seeded/${id}_m* seeded/_dropped/${id}_m* 2>/dev/null | sed 's/.*_m//' | sort -n | tail -1); max=${max:-0}
new=""
for k in 1 2; do
  [ -f $src/MUTANT_$k/patch.diff ] || continue
  max=$((max+1)); d=seeded/${id}_m$max; mkdir -p $d
  cp $src/MUTANT_$k/patch.diff $d/patch.diff; cp $src/MUTANT_$k/demo.py $d/demo.py; cp $src/MUTANT_$k/README.md $d/agent_README.md
  new="$new ${id}_m$max"
done
git -C /repo worktree remove --force $src; git -C /repo worktree prune
for s in $new; do
  tools/mut.py --checks ${CHECKS:-$id} --patch seeded/$s/patch.diff 2>&1 | grep -A1 "^CHECK" | cut -c1-420 | sed "s/^/$s /"
done
