#!/usr/bin/env python3
"""Regenerates MANIFEST.json from the table below (run after adding a check)."""
import json, os
ROOT = os.path.dirname(os.path.dirname(os.path.abspath(__file__)))

CHECKS = {
  # id: (technique, level text, level note, design ref)
  "C01": ("explicit-state enumeration (depth 1) of the real matrix_inverse_pth_root over a complete "
          "lattice of PSD inputs x exponents x ridge settings x methods, 80-bit residual oracle",
          "Every matrix scale*Q*diag(lambda)*Q^T with lambda a sorted multiset over {0,1e-8,1e-4,1e-2,1} (top 1), Q in "
          "{I, Householder, generic(seed)}, scale in {1e-6,1,1e6}, n in 1..5 (6 thorough), padding {0,2} ({0,1,3}), p in 1..8, "
          "three (five) ridge settings, Newton / eigh / LOBPCG-deflated (relative, absolute, padded), float64 and float32, Newton with "
          "iteration budgets {4,8,12} (2..16) below convergence, Newton with a `prev` argument (root of a nearby matrix), a subset with "
          "jax_enable_x64 switched on only after the library was imported, plus all-padding inputs, is passed to the "
          "real routine exactly as the optimizer calls it (vmapped, traced p and padding_start). On every result: finite, exactly zero "
          "on padding, symmetric, estimate <= true lambda_max, and (float64, kappa_reg <= 1e8, reported error < 0.1) the true residual "
          "max|X^p(A+dI)-I| in 80-bit arithmetic, minimised over the admissible ridge interval, is bounded by the reported error plus "
          "64*n*p*kappa*u. The model is the input lattice; depth 1 is right for a pure routine.",
          "Inputs off the lattice, n > 6, TPU precision modes are not covered; the slack constant is empirical; honesty is not judged "
          "beyond kappa_reg 1e8 or in float32.", "DESIGN.md §4 C01"),
  "C02": ("explicit-state BFS over all gradient histories up to depth T through the real distributed_shampoo update for every "
          "configuration within deviation k of the base configuration, lock-step with an independent float64 reference model "
          "(stage-wise: statistics, then update)",
          "Every configuration within 1 (quick) / 2 (thorough) deviations of the base over 22 arithmetic options (all 7 graft types, "
          "beta1/beta2 incl. 1.0, nesterov, moving-average momentum, weight decay x decoupling, lr decoupling/schedule, block size incl. 1, "
          "merging, preconditioner type, exponent override, start step, both intervals, skip thresholds, eigh, relative/absolute epsilon) "
          "plus 17 interacting pairs, on two parameter trees (ranks 0-3; a rank-4 tree in thorough), replicated and sharded - and, for every "
          "structural option (block size, merging, preconditioner type, skip rules, exponent, eigh, refresh interval), under jax.pmap "
          "over 2 (3, 4) forced host devices on two trees (most statistics; statistics of sizes 2,3,3), plus x64-late tasks with ridge 1e-9 - is driven "
          "through all histories over {gA,gB} of length <= 4 (5 with g0 in thorough). After every transition the stored statistics are "
          "compared with w1*L+w2*G_(i)G_(i)^T (2e-6) and every update leaf with the documented formula evaluated in float64 on the "
          "stored statistics (2e-4). Process-history dimension: before and after every task the neighbouring configurations are "
          "constructed and initialised in the same process, so state kept at module level shows up.",
          "The ridge actually used is taken from the reported diagnostics and the accept/keep decision from the reported error (C01 and "
          "C03 judge those); graft NONE with coupled learning rate is excluded as undefined by the documentation; block sizes > 4 and "
          "other trees are not covered.", "DESIGN.md §4 C02"),
  "C03": ("TLC model checking of the TLA+ refresh/gate protocol with fault events + replay of every path on the implementation, and "
          "explicit-state BFS over all bounded fault histories for the cross product of modes, thresholds, ridge and root methods",
          "(a) TLC enumerates RefreshProtocol (S,P in {1,2}, modes replicated / pmap+int16 / sharded, events {ok,nan}, <=2 nan, T=5; "
          "thorough S,P in 1..3, <=3 nan, T=6); every path of the dumped graph is replayed on the real optimizer and a poisoned statistic "
          "must never change the stored preconditioner. (b) BFS over every history over {gA, g0, NaN, Inf, 2^40, 2^-40, 2^100} of length "
          "<= 3 (4) with <= 2 (3) fault events for mode x threshold {0,1e-30,0.1,1e30} x epsilon {1e-6,0} x {Newton,eigh} x interval "
          "{1,2} x {float32,float64}, plus float32 pmap over 3 devices (4 statistics padded to 6 work items), x64 with thresholds that float32 rounds down (0.7, 0.01) "
          "at interval 2, an infinite threshold at interval 2, SGD grafting with eigh and ridge 0, and all-1x1-statistics configurations: after every transition each stored preconditioner is bit-identical to before or (refresh step and "
          "reported error finite and below the threshold); all stored preconditioner leaves finite; updates finite on histories of "
          "finite moderate gradients.",
          "Fault values beyond the seven classes and fault positions inside a tensor (one fixed entry) are not covered; one known "
          "finding (gate disabled + zero ridge + 1e24 scale jump, sharded) is listed in known_findings.json.", "DESIGN.md §4 C03"),
  "C04": ("TLC model checking of the TLA+ RefreshProtocol over the whole (S, P, start, mode, schedule) grid + replay of every path of "
          "the dumped state graph against Distributed Shampoo and Tearfree; TLC's counts cross-checked against the Python explorer",
          "TLC explores the version-level protocol model for (S,P) in {1,2,3}^2 x start {0,1,2,4} x {replicated, pmap+int16-quantized, "
          "sharded}, two lr-scheduled interval tables over 24 (40) steps, and Tearfree Shampoo/Sketchy grids (thorough: intervals to 4, "
          "events {ok, zero}); model invariants are checked by TLC and every path is replayed on the real optimizers: counters advance "
          "by one, statistics/preconditioner/diagnostic leaves change bitwise exactly when the model's versions change, refreshed "
          "preconditioners are the root of the statistics current at that step, warm-up updates equal the graft-only run (1e-6) and "
          "later ones the preconditioned formula with the stored (sharded: previous) preconditioner. The fixed-interval grids run with "
          "coupled weight decay (warm-up also against the reference formula); the quantized pmap mode runs over 2 devices.",
          "The model abstracts values to versions; schedules outside the two tabulated ones and horizons > 40 are not covered.",
          "DESIGN.md §4 C04"),
  "C05": ("explicit-state BFS over all gradient histories for the product graft type x preconditioner representation x start step "
          "x skip rule through the real optimizers, closed-form float64 grafting steps, direction obtained by an independent dense "
          "application of the state's own preconditioners",
          "distributed_shampoo: 6 graft types x {full, low-rank +2, -2, frequent directions, int16-quantized under pmap} x start {0,2} "
          "({0..3}) x {no exclusion, skip_preconditioning_rank_lt, skip_preconditioning_dim_size_gt}; tearfree: {SGD, RMSPROP, ADAFACTOR} "
          "x {Shampoo, Sketchy} x start x skip rules; every history over {gA,gB,gSeed,g0} of length <= 3 (4) with momentum, Nesterov and "
          "weight decay off and lr=1; the grafting optimizer's own hyper-parameters (diagonal epsilon 1e-3, second-moment decay 1, "
          "tiny gradients after ordinary ones, coupled learning rate, sharded mode; tearfree graft decay 1) as extra variants; tearfree tasks run after neighbouring grafting "
          "configurations were built and stepped in the same process. Per leaf and step: before the start step and for excluded leaves the update equals the closed-form "
          "grafting step (1e-6); afterwards its norm equals the grafting step's norm (1e-5), it is parallel to the gradient "
          "preconditioned with the matrices the stored (packed, quantized, sketched) preconditioners denote (angle bounded by the "
          "float32 rounding bound of that application, at least 1.5e-3), or zero when that gradient is zero.",
          "The direction clause is skipped (counted) where the float32 application of the stored preconditioners is itself "
          "ill-conditioned (bound > 0.3 rad: lossless frequent-directions states whose complement constant is ~1e14); "
          "optax.adafactor is the trusted base for ADAFACTOR.", "DESIGN.md §4 C05"),
  "C08": ("explicit-state enumeration of block layouts x per-block scale vectors x companions x all gradient histories through the "
          "real optimizers, three-run differential oracle (blocked tensor / blocks as separate leaves / with a companion)",
          "distributed_shampoo layouts 4x3 and 5x3 with block 2 (ragged blocks; thorough adds 4x4 and 3x5), 3x3 and 6x3 with block 4 "
          "(statistics of different sizes next to the larger companion, so that padding to a common size happens), and tearfree layouts "
          "4x2, 6x2 (4x4) with block 2, the distributed_shampoo differential also under jax.pmap over 2 (4) forced host devices (more "
          "statistics than devices) against the separate-leaf single-device run, every per-block gradient scale vector over {2^-20, 1, 2^20} (at most 3 non-unit scales when there are "
          "more than 4 blocks) plus one block at a time with an overflowing Gram matrix (that block is not judged, the others are), "
          "graft NONE and SGD, companions {small, larger than every block, 2^20-scaled, a vector whose key sorts first}, every history over "
          "{gA,gB} of length <= 2 (3): each block of the blocked tensor must be updated exactly like the same block as a separate "
          "tensor (1e-3 of the block's max-norm), with SGD grafting the update must be the separately preconditioned blocks rescaled by "
          "the parameter-level norm ratio, and the update must not change when a companion parameter is added.",
          "More than 6 blocks and ill-conditioned blocks are not covered; merging is off so that a block and a separate leaf get the "
          "same interpretation.", "DESIGN.md §4 C08"),
  "C06": ("explicit-state enumeration (depth 1) of every tensor shape of rank 0..5 with dims 1..B x block sizes x merge limits x "
          "preconditioner types x compression rank through the real shape routines on index-valued tensors",
          "All 364 (quick, B=3) / 1365+ (thorough, B=4) shapes crossed with block sizes 0..B+1, 7 merge limits, 3 preconditioner types "
          "and compression rank {0,1} go through merge_small_dims, BlockPartitioner, Preconditioner (announced shapes, exponent, "
          "statistics slots, identity and slot-scaled preconditioning), tearfree blockify/deblockify (+ a lattice of exact-multiple "
          "shapes with up to two blocked axes) and reshaper merge/unmerge; each result is compared with an independent slice "
          "enumeration on arange tensors, so loss, duplication or permutation of a single element is visible; every Preconditioner is "
          "asked for its shapes twice; the reshaper round trip is repeated with a float32 update next to bfloat16 parameters.",
          "dims > B (block arithmetic is periodic in the block size); maximal merging is not demanded (the property only states the "
          "size limit).", "DESIGN.md §4 C06"),
  "C07": ("abstract explicit-state exploration: pytree signatures as states, jax.eval_shape(update) on a concrete init as the "
          "transition (an inductive fixed-point check), over deviation-bounded configurations of distributed_shampoo / sm3 / tearfree "
          "x parameter trees x transports, bound to the code by concrete 3-update runs",
          "Every configuration within 1 deviation (quick; 2 thorough) of the defaults over the full option tables (35 "
          "distributed_shampoo options, 6 sm3, 25 tearfree) x 5 parameter trees (scalars, unit dims, lone (1,), blocked, rank 4) x "
          "{plain, batch axis, sharded}, all 2-deviation configurations on one tree, and the full cross product of the 11-option layout "
          "cluster (compression x frequent directions x reuse x average_grad x reset x quantization x metrics x skip x block x type, "
          "3072 configurations): construction/init/update succeed or raise an explicit rejection (a raise statement of the package, an "
          "assertion with a message, LOBPCG's input validation) - any other exception is a violation; the update tree equals the "
          "parameters in structure/shape/dtype; sig(update(S0)) == S0 (PyTreeDef ==, shapes, dtypes), which is inductive because "
          "traced control flow cannot depend on values; sharded: init state, declared shapes/dtypes and partition specs describe one "
          "tree. Every <=1-deviation configuration is also run concretely for 3 updates and must reproduce the abstract signature. "
          "jax_enable_x64 with float32 parameters is an environment dimension (2-deviation distributed_shampoo, sm3, tearfree, a "
          "384-configuration slice of the layout cluster); bfloat16 trees are a parameter-dtype dimension.",
          "Value-dependent failures belong to C03; combinations of 3+ simultaneous deviations outside the cluster are not covered; "
          "vmap(axis_name) stands in for pmap in the abstract runs (pmap is used in the concrete ones). Two known findings (bfloat16 "
          "parameters; tearfree under x64) are listed in known_findings.json.", "DESIGN.md §4 C07"),
  "C09": ("explicit-state BFS over all gradient histories up to depth T through the three real frequent-directions step functions "
          "and through the public optimizers, lock-step with the exact float64 covariance",
          "For rank k in {1,2,3} x decay b in {1,0.5,0.25}: distributed_shampoo._fd_update_root iterated directly (factors from "
          "frequent_directions_update, padding {0,3} with garbage in the padding, epsilon {0, 1e-3 absolute}, float64 and float32), "
          "tearfree.sketchy._update_axis for every axis of tensors of rank 1..3, the OCO sketches (C16 machinery), and the sketches "
          "read out of optimizer state after public update calls (distributed_shampoo FD mode, tearfree Sketchy) are driven through "
          "every history over {full rank, rank 1 along e1, rank 1 generic, zero, 2^10-scaled} of length <= 4 (5). After every "
          "transition: columns of V orthonormal or zero and zero on padding, l >= 0, t >= 0, V l V' <= C <= V l V' + t I against the "
          "exact b-discounted covariance, t' = b t + removed (k+1)-th eigenvalue of the exact pre-deflation matrix, retained "
          "eigenvalues = top-k minus the removed one, zero-gradient law, t = 0 for histories of rank <= k, stored inverse roots = "
          "(l + t + eps)^(-1/p).",
          "With a ridge the bracket against the exact covariance is replaced by the one-step relation (the ridge is re-added to the "
          "retained eigenvalues every step); d <= 8, k <= 3. One known finding (public FD mode loses the sketch of statistics smaller "
          "than the largest) is listed in known_findings.json.", "DESIGN.md §4 C09"),
  "C10": ("explicit-state enumeration (depth 1) of all admissible (d, r), paddings, gapped spectra and gradient shapes through the "
          "real pack/unpack, _low_rank_root and compressed preconditioned_grad against dense float64 reconstructions",
          "All (d, r) with |r|+2 < d <= 8 (10 thorough), both signs, paddings {0,3}: pack/unpack round trips on distinguishable values "
          "(exact); _low_rank_root for 3 gapped spectra x scales {1, 2^-6, 16} x 3 bases x p in {2,4,6,8} x 3 ridge settings (absolute 1e-3, "
          "relative 1e-12, relative 1e-2) against the exact root with the complement averaged over the unpadded dimensions (1e-8); for "
          "the relative ridge 1e-2 the one scalar the routine does not report (the ridge actually added, epsilon times a power-iteration "
          "estimate) is recovered from the returned constant by bisection and must lie in [0.5,1] x epsilon x lambda_max; preconditioned_grad with mixed full/packed preconditioners for every "
          "gradient shape over dims {3,5,6} of rank 1..3 and every has_zeros pattern against dense tensordot (1e-12); and through the "
          "public optimizer for r in {1,-1,2,-2} on matrices with an axis at, just above and just below d = |r|+2: non-admissible axes "
          "must store the exact dense root of the stored statistic, admissible ones the [d,|r|+2] packed root; ridge 0 on diagonal statistics with trailing exactly-zero coordinates (mean over "
          "all unpadded non-retained dimensions).",
          "Spectra without a gap at the cut are excluded (the denoted matrix is not unique there); d > 10.", "DESIGN.md §4 C10"),
  "C11": ("exhaustive lattice enumeration (depth 1) of the real QuantizedValue quantize/dequantize/requantize over all float32 "
          "exponents x bucket boundaries",
          "Column max-abs over all 254 finite float32 exponents x 8 mantissas (+ subnormals, FLT_MAX); column entries every bucket "
          "boundary (k+1/2)b and its two float32 neighbours, every k*b, +-max and 0 (int8: all 254 boundaries; int16: all 65534 in "
          "thorough, every 64th in quick); layouts rank 1..3, eager and jitted; every shape over dims {1,2,3} of rank 1..3 (unit axes in every position) with the layout "
          "of integers, bucket sizes (one per column = x.shape[1:]) and dequantized tensor checked; square matrices with extract_diagonal "
          "(also for the pass-through dtypes); constant and "
          "zero columns; float32/bfloat16 pass-through; and the optimizer's own quantized state under pmap over all histories (every "
          "stored QuantizedValue is a fixed point of dequantize->quantize, carried preconditioners keep their bits, the stored statistic "
          "is within half a bucket per column of w1*dequantize(previous)+w2*GG^T, a zero gradient with beta2=1 changes nothing) and the "
          "sharded variant's declared layout of the quantized state. Oracle per element in float64: half-bucket bound, no most-negative integer, "
          "exact zeros and diagonal, identical integers after re-quantisation.",
          "XLA CPU backend (flush-to-zero) is the platform observed; tensors of rank > 3 not covered. Two known findings (bucket "
          "underflow, FLT_MAX) are listed in known_findings.json.", "DESIGN.md §4 C11"),
  "C12": ("explicit-state BFS over all gradient histories up to depth T through the real sm3 update, lock-step with an exact "
          "float64 per-entry accumulator; states merged on bit-identical (state, reference)",
          "For 12 shapes (quick) / all 120 shapes of rank 1..4 with dims <= 3 (thorough) x beta2 in {1,0.5,0.999} x beta1 in {0,0.9} x "
          "weight decay x normalisation, every history over {gA,gB,g0,gSeed} of length <= 4 (5) is executed; after every transition the "
          "cover invariant (min over a coordinate's accumulators >= exact decayed sum, exact for dyadic decay), monotonicity for "
          "beta2=1, the per-coordinate step bound against diagonal AdaGrad/RMSProp and rank-1 equality (with momentum: against the same "
          "momentum average of diagonal AdaGrad/RMSProp's steps, 3% allowance for the int8 momentum) are evaluated; bfloat16 tensors with exactly representable events and an entry whose "
          "square overflows float32 are extra tasks.",
          "Gradient values outside the dyadic alphabet; dims > 3.", "DESIGN.md §4 C12"),
  "C13": ("explicit-state enumeration of the product device count x number of statistics x representation x all gradient "
          "histories through jax.pmap on forced host devices and through the sharded optimizer under real meshes, differential oracle "
          "against the one-device run",
          "For D in {1..4} (quick) / {1..8} (thorough) forced host-platform devices x trees with N in {1,2,3,5,6,8} (1..10,12,14) "
          "statistics (N mod D covers the residues, reported) x {full, int16-quantized, low-rank compressed, reuse+eigh} x every history "
          "over {gA,gB} of length <= 2 (3), every device's update and state is compared with the one-device run (2e-6 of the leaf's "
          "max-norm in float64-root runs, 2e-4 in float32-root runs, one bucket for quantized payloads; bit-identical leaves counted). "
          "The sharded optimizer is run with declared device counts {1,2,3,5} (1..8) on a 1-device mesh and on meshes of 2 and 4 (and "
          "8) devices and must give the same per-parameter statistics, preconditioners, local state and updates.",
          "Forced CPU host devices stand in for accelerators (single host, CPU collectives); root diagnostics (noise-level errors, "
          "their ratios, iteration counts) are only required to agree in structure, finiteness and to 1e-4 absolutely.",
          "DESIGN.md §4 C13"),
  "C14": ("explicit-state BFS over all gradient histories with a crash/restore transition at every reached state (serialize, fresh "
          "optimizer object and trace, restore, continue), bitwise differential oracle",
          "For 18 optimizers (tearfree Shampoo and Sketchy stepped op by op on the deserialized NumPy leaves, where the restored state "
          "must be steppable, stay unmodified and agree to 1e-4; sm3 stepped op by op on leaves as deserialized; distributed_shampoo trained in a process that enabled x64 "
          "after the import and resumed in a fresh process with x64 from the start; distributed_shampoo full / eigh+schedule / scheduled refresh interval stepped op by op without jit / "
          "scheduled learning rate under jax_enable_x64 / pmap+quantized / compressed / frequent-directions / sharded / "
          "sharded restored into the target declared by shape_and_dtype_fn / LOBPCG, sm3, tearfree Shampoo / Sketchy / Adafactor-grafted) every state reached by a history over {gA,gB} of length <= 3 (5 "
          "thorough) is serialized with flax msgpack, restored into the init template of a freshly constructed optimizer, and for every "
          "gradient of the alphabet the update and next state from the restored state must be bit-identical to those from the original; "
          "by induction over the BFS tree every continuation from every crash point equals the uninterrupted run. The restore-and-continue is also performed "
          "in a fresh interpreter process with a different PYTHONHASHSEED (quick: three optimizers; thorough: all, crash points 0, 1, T).",
          "Same XLA build and host; histories beyond the depth bound.", "DESIGN.md §4 C14"),
  "C15": ("explicit-state BFS over all gradient histories up to depth T through the real tearfree update for every configuration "
          "within deviation k of a base TearfreeOptions, lock-step with an independent float64 reference model; differential lr "
          "linearity",
          "Every configuration within 1 (quick) / 2 (thorough) deviations over 15 Shampoo options (+13 interacting pairs, frequency pairs to depth 5) and 10 Sketchy "
          "options (block size, merge limit, both frequencies, decay, graft type/decay/start/skip rules, ema, nesterov, momentum decay, "
          "weight decay before/after, constant/scheduled lr, sketch rank, epsilon mode, update frequency) on two trees (blocked and "
          "padded leaves, unit dims, scalar, a (1,5) leaf, a (6,2,6) leaf with two blocked axes separated by a small one) is driven through all histories over {gA,gB,g0,gD} (gD: half of the rows scaled 2^-14, so "
          "that blocks differ in scale) of length <= 3 (4). Every update leaf is compared with -lr(t)*momentum(wd(graft(second_order("
          "merge+pad(g))))) evaluated in float64 (1e-9 for Shampoo under x64; 2e-4 for float32 Sketchy plus a computed allowance for "
          "the tail>0 switch when the exact escaped mass is zero; leaves on which that switch has a real complement are undecidable, counted "
          "and skipped for the rest of the path), and lr=c against lr=1 (exact for dyadic c).",
          "optax.adafactor is the trusted base for ADAFACTOR grafting; cases whose eigenvalue ratio lies within a factor 4 of the "
          "documented 1e-6 cut-off are counted inconclusive (none in the alphabet); float32 Sketchy is not given the 2^-28-spread event.",
          "DESIGN.md §4 C15"),
  "C16": ("explicit-state BFS over all gradient sequences up to depth T through the real OCO init/update pair, lock-step with "
          "closed forms and an independent NumPy frequent-directions sketch",
          "For every (algorithm in OGD/ADA/S_ADA/ADA_FD/FD_SON/RFD_SON, dimension 2..4 (5), sketch size {2,3}, delta {0,0.5}, lr "
          "{1,0.25}) all sequences over {a, b, a+b, d, 0} of length <= 4 (5; 5/6 for the closed forms) are executed under x64: closed-form "
          "iterates (1e-10), last sketch row zero, FD bracket against the exact covariance, S-AdaGrad alpha = delta + escaped mass, "
          "equality with exact full-matrix AdaGrad whenever the history rank is below the sketch size and delta > 0, for S-AdaGrad the "
          "step actually applied against the post-update (P, e, alpha) (skipped and counted where alpha is below 1e-10 of the spectrum), "
          "tiny-scale tasks for every algorithm (gradients x 2^-12 / 2^-24, delta 0 and 2^-44), every task after an eager run on the same "
          "bound (init, update) pair, the training loop _compiled_run_dataset over every chunking of every row "
          "sequence, and neighbouring hyper-parameters bound in the same process before the task (module-level caches).",
          "Finite iterates are not part of the property (Ada-FD with delta=0 divides by its zero diagonal term; counted, not judged).",
          "DESIGN.md §4 C16"),
  "C17": ("explicit-state enumeration of the real create_redist_dict over all "
          "bounded (dims, scores, layout, base rank, rule) instances (depth 1)",
          "Every synthetic optimizer state with up to 3 (quick) / 4 (thorough) sketched axes, dims from {2,3,4,6}, "
          "scores from an 8-value scale-disparate pool, both layer layouts, both layer namings (the routine walks a set of names), "
          "base rank 1..dim+1, five scoring rules and the running-average mode, plus float32- and float64-adversarial sub-lattices (one dominant "
          "score, several around its float32 ulp / below its float64 ulp, 4-5 axes), is passed to the real function; the budget and range invariant is evaluated on every result. The 'model' is the "
          "input lattice; the exploration has depth 1, which is the right level for a pure function of its input.",
          "Scores reach the routine through the real score_fn from synthetic sketch records; values outside the pools and "
          "more than 4 axes are not covered.", "DESIGN.md §4 C17"),
}

PENDING_REASON = "check not built yet in this round (planned, see DESIGN.md §4); not a limit of the technique"

def main():
  props = [json.loads(l) for l in open(os.path.join(ROOT, "properties.jsonl"))]
  checks, na = [], []
  for p in props:
    pid = p["id"]
    if pid in CHECKS:
      tech, text, note, ref = CHECKS[pid]
      checks.append({
        "property_id": pid,
        "quick_cmd": "./check %s --tier quick" % pid,
        "thorough_cmd": "./check %s --tier thorough" % pid,
        "evidence_file": "/verif/evidence/%s.json" % pid,
        "replay_cmd_template": "./check %s --replay {path}" % pid,
        "engine": "tlc-replay" if pid in ("C03", "C04") else "mcx",
        "level_claimed": {"category": "model_checking", "text": text, "design_ref": ref},
        "level_note": note,
        "technique": tech,
      })
    else:
      na.append({"property_id": pid, "reason": PENDING_REASON})
  m = {
    "version": 1,
    "setup_cmd": "cd /verif && /venv/bin/python -c 'import jax, flax, optax, precondition' && chmod +x check",
    "hooks": {
      "guard": "PRECONDITION_VERIF",
      "enable": "no source hooks exist; checks import /repo's working tree through the editable install (workers set PRECONDITION_VERIF=1, unused by the library)",
      "baseline_off_cmd": "cd /repo && env -u PRECONDITION_VERIF /venv/bin/python -m pytest -ra -q -p no:cacheprovider --timeout=900 --continue-on-collection-errors",
      "source_commits": [],
      "add_only": True,
    },
    "engines": [
      {"name": "tlc-replay", "path": "mc/tla/RefreshProtocol.tla + mc/tlc.py + mc/replay.py", "serves_properties": ["C03", "C04"],
       "kind_free_text": "TLA+ model of the refresh/gate protocol, explored by TLC (state graph dumped with action labels); every path is replayed against the real optimizers by mc/replay.py; TLC's distinct-state and edge counts are cross-checked against the Python explorer on the same automaton"},
      {"name": "mcx", "path": "mc/", "serves_properties": sorted(CHECKS),
       "kind_free_text": "hand-written explicit-state explorer: BFS over the real transition function of the optimizers (immutable JAX pytrees as states, bit-exact canonical hashing) with lock-step NumPy float64 reference models; depth-1 instances for pure routines; 16 fresh worker processes"},
    ],
    "checks": checks,
    "not_applicable": na,
    "notes": "All checks: ./check <id> --tier quick|thorough; evidence in evidence/<id>.json; known findings in known_findings.json.",
  }
  json.dump(m, open(os.path.join(ROOT, "MANIFEST.json"), "w"), indent=1)
  print("checks:", len(checks), "not_applicable:", len(na))

main()
