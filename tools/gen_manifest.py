#!/usr/bin/env python3
"""Regenerates MANIFEST.json from the table below (run after adding a check)."""
import json, os
ROOT = os.path.dirname(os.path.dirname(os.path.abspath(__file__)))

CHECKS = {
  # id: (technique, level text, level note, design ref)
  "C17": ("explicit-state enumeration of the real create_redist_dict over all "
          "bounded (dims, scores, layout, base rank, rule) instances (depth 1)",
          "Every synthetic optimizer state with up to 3 (quick) / 4 (thorough) sketched axes, dims from {2,3,4,6}, "
          "scores from an 8-value scale-disparate pool, both layer layouts, base rank 1..dim+1 and three scoring rules is "
          "passed to the real function; the budget and range invariant is evaluated on every result. The 'model' is the "
          "input lattice; the exploration has depth 1, which is the right level for a pure function of its input.",
          "Scores reach the routine through the real score_fn from synthetic sketch records; values outside the pools and "
          "more than 4 axes are not covered.", "DESIGN.md §4 C17"),
}

PENDING_REASON = "check not built yet in this round (planned, see DESIGN.md §4); not a limit of the technique"

def main():
  props = [json.loads(l) for l in open(os.path.join(ROOT, "properties.jsonl"))]
  checks, na = [], []
  for p in props:
    pid = p["id"]
    if pid in CHECKS:
      tech, text, note, ref = CHECKS[pid]
      checks.append({
        "property_id": pid,
        "quick_cmd": "./check %s --tier quick" % pid,
        "thorough_cmd": "./check %s --tier thorough" % pid,
        "evidence_file": "/verif/evidence/%s.json" % pid,
        "replay_cmd_template": "./check %s --replay {path}" % pid,
        "engine": "mcx",
        "level_claimed": {"category": "model_checking", "text": text, "design_ref": ref},
        "level_note": note,
        "technique": tech,
      })
    else:
      na.append({"property_id": pid, "reason": PENDING_REASON})
  m = {
    "version": 1,
    "setup_cmd": "cd /verif && /venv/bin/python -c 'import jax, flax, optax, precondition' && chmod +x check",
    "hooks": {
      "guard": "PRECONDITION_VERIF",
      "enable": "no source hooks exist; checks import /repo's working tree through the editable install (workers set PRECONDITION_VERIF=1, unused by the library)",
      "baseline_off_cmd": "cd /repo && env -u PRECONDITION_VERIF /venv/bin/python -m pytest -ra -q -p no:cacheprovider --timeout=900 --continue-on-collection-errors",
      "source_commits": [],
      "add_only": True,
    },
    "engines": [
      {"name": "mcx", "path": "mc/", "serves_properties": sorted(CHECKS),
       "kind_free_text": "hand-written explicit-state explorer: BFS over the real transition function of the optimizers (immutable JAX pytrees as states, bit-exact canonical hashing) with lock-step NumPy float64 reference models; depth-1 instances for pure routines; 16 fresh worker processes"},
    ],
    "checks": checks,
    "not_applicable": na,
    "notes": "All checks: ./check <id> --tier quick|thorough; evidence in evidence/<id>.json; known findings in known_findings.json.",
  }
  json.dump(m, open(os.path.join(ROOT, "MANIFEST.json"), "w"), indent=1)
  print("checks:", len(checks), "not_applicable:", len(na))

main()
