import json,os
M = {
 "C02_m9": ("C02","root working dtype frozen at import time (module constant canonicalized when the module is loaded)","jax_enable_x64 switched on after the import, ill-conditioned statistics with a small ridge",["C01","C02"],"C01's x64late tasks caught it; C02 missed it and gained x64-late tasks with matrix_epsilon 1e-9 (Newton and eigh)"),
 "C02_m10": ("C02","exponent_for_preconditioner: one-sided types always 2","PreconditionerType INPUT on a parameter of rank >= 3 after merging",["C02"],"caught (preconditioner-type pairs)"),
 "C03_m9": ("C03","grafting multiplier rewritten with the 1e-25 guard on the squared scale","a zero preconditioner (eigh root of zero statistics, ridge 0) followed by a gradient of 1e7 or more with SGD grafting",["C03"],"missed at first (RMSProp graft only); C03 gained SGD-graft tasks for eigh with ridge 0"),
 "C03_m10": ("C03","skip-step placeholder error made the float32 maximum instead of the threshold","inverse_failure_threshold infinite and interval >= 2",["C03"],"missed at first (largest threshold 1e30); C03 gained threshold 1e39 (float32 inf) at interval 2"),
 "C04_m9": ("C04","coupled weight decay added to the Shampoo update instead of the grafting update","weight_decay != 0 (coupled) on warm-up steps",["C04"],"missed at first (no weight decay; warm-up compared with a graft-only run of the same code); C04's fixed-interval grids now run with weight decay and compare warm-up updates with the reference formula too"),
 "C04_m10": ("C04","batch() deals round-robin while unbatch() gathers contiguously (the same slip as C08_m4, delivered independently for C04)","pmap over > 1 device with more statistics than devices",["C04"],"missed at first (quantized pmap mode on one device); C04's quantized mode now runs over 2 devices"),
 "C05_m9": ("C05","coupled learning rate: graft norm taken before the lr scaling","decoupled_learning_rate=False with lr != 1, from the start step on",["C05"],"missed at first; C05 gained the coupled-lr variant"),
 "C05_m10": ("C05","sharded: the graft accumulator is not written back to the local state","sharded mode, ADAGRAD/RMSPROP graft, >= 2 steps",["C05"],"missed at first; C05 gained the sharded variant"),
 "C07_m9": ("C07","early continue skips the statistics index when training metrics are off","generate_training_metrics=False and two preconditioned leaves of different shapes",["C07"],"caught"),
 "C07_m10": ("C07","tearfree Shampoo validation counts only dims strictly larger than the block","three or more dims >= block_size, some equal to it",["C07"],"caught (internal assertion instead of the explicit rejection)"),
 "C08_m9": ("C08","sharded init: index_start counts skipped parameters","sharded, a skipped parameter of rank >= 1 flattened before a preconditioned one, enough padding slots",["C07","C13"],"C07 (static bookkeeping) and C13 (skipfirst) caught it; C08 has no sharded run, this one is left to them"),
 "C08_m10": ("C08","tearfree _deblockify re-insertion index without the middle axes","two blocked axes separated by a small axis, more than one block on the right one",["C08"],"missed at first (2-D tearfree layouts only; C15 and C06 catch the family); C08 gained the 6x2x6 layout"),
 "C13_m9": ("C13","quantized pmap path: replica count from jax.device_count()","quantized mode, pmap over fewer devices than the host has",["C13"],"caught"),
 "C13_m10": ("C13","skip-step placeholder metrics sized by the unpadded statistic count","interval > 1, D > 1 not dividing N",["C13"],"missed at first (interval 1 only); C13 gained the interval2 variant"),
 "C15_m9": ("C15","grafting norms taken in float32","jax_enable_x64 with float64 gradients",["C15"],"caught (1.1e-7 against 1e-9)"),
 "C15_m10": ("C15","Shampoo statistics EMA written with in-place operators","state restored as NumPy leaves and stepped without jit",["C14"],"C14's tf_shampoo_eager catches it (the restored read-only leaves make the in-place update raise); C15 judges the composition on jitted runs and does not see it"),
}
for sid,(prop,what,needs,det,note) in M.items():
    d='/verif/seeded/'+sid
    conf=open(d+'/confirm.log').read() if os.path.exists(d+'/confirm.log') else ''
    meta={"id":sid,"property":prop,"written_by":"independent sub-agent (seventh wave, 8 properties: given the property text, the list of changes already delivered for it and its own scratch worktree)",
          "what":what,"needs_to_manifest":needs,"detected_by":det,"note":note,
          "confirmed":{"how":"tools/confirm_seed.sh %s (fresh scratch worktree of /repo HEAD under /tmp, removed afterwards)"%sid,
                       "demo_on_clean_tree_exit":0 if "demo_clean_exit=0" in conf else None,
                       "demo_with_patch_exit":1 if "demo_mutant_exit=1" in conf else None,
                       "repository_suite_with_patch":[l for l in conf.splitlines() if l.startswith('suite:')][0][7:] if 'suite:' in conf else None},
          "checks_run":"tools/mut.py --checks %s --patch seeded/%s/patch.diff  (quick tier, scratch copy through VERIF_REPO): exit 1 with VIOLATION lines for every check listed in detected_by" % (",".join(det),sid)}
    json.dump(meta,open(d+'/meta.json','w'),indent=1)
print(len(M))
