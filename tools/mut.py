#!/usr/bin/env python3
"""Run checks against a mutated scratch copy of the repository.

  tools/mut.py --checks C11,C12 [--tier quick] --edit 'relpath@@@old@@@new' ...
  tools/mut.py --checks C11 --patch some.diff

The scratch copy lives under /tmp (outside /repo and /verif) and is removed
afterwards.  Evidence files are not touched (VERIF_REPO runs never write
evidence).  With --suite the repository's own tests for the touched files are
run in the scratch copy first.
"""
import argparse, os, shutil, subprocess, sys, tempfile

ap = argparse.ArgumentParser()
ap.add_argument("--checks", required=True)
ap.add_argument("--tier", default="quick")
ap.add_argument("--edit", action="append", default=[])
ap.add_argument("--patch")
ap.add_argument("--suite", help="pytest target(s) inside the scratch copy, comma separated, or 'all'")
ap.add_argument("--keep", action="store_true")
ap.add_argument("--seed", default="0")
a = ap.parse_args()

d = tempfile.mkdtemp(prefix="mut_", dir="/tmp")
try:
  subprocess.check_call(["rsync", "-a", "--exclude", ".git", "--exclude", "__pycache__", "/repo/", d + "/"])
  for e in a.edit:
    rel, old, new = e.split("@@@")
    p = os.path.join(d, rel)
    s = open(p).read()
    if s.count(old) < 1:
      print("EDIT-NOT-FOUND", rel, repr(old)); sys.exit(2)
    open(p, "w").write(s.replace(old, new, 1))
  if a.patch:
    subprocess.check_call(["patch", "-p1", "-d", d, "-i", os.path.abspath(a.patch)], stdout=subprocess.DEVNULL)
  if a.suite:
    tgt = [] if a.suite == "all" else a.suite.split(",")
    r = subprocess.run(["/venv/bin/python", "-m", "pytest", "-q", "-x", "-p", "no:cacheprovider", "-n", "8"] + tgt if False else
                       ["/venv/bin/python", "-m", "pytest", "-q", "-p", "no:cacheprovider"] + tgt,
                       cwd=d, capture_output=True, text=True, env=dict(os.environ, PYTHONPATH=d))
    print("SUITE:", r.stdout.strip().splitlines()[-1] if r.stdout.strip() else r.stderr[-300:])
  env = dict(os.environ, VERIF_REPO=d, VERIF_SEED=a.seed)
  for c in a.checks.split(","):
    r = subprocess.run(["/verif/check", c, "--tier", a.tier], capture_output=True, text=True, env=env)
    viol = [l for l in r.stdout.splitlines() if l.startswith("VIOLATION")]
    det = [l for l in r.stdout.splitlines() if l.strip().startswith("detail:")]
    last = r.stdout.strip().splitlines()[-1] if r.stdout.strip() else ""
    print("CHECK %s exit=%d violations=%d" % (c, r.returncode, len(viol)))
    for l in det[:2]:
      print("   ", l.strip()[:400])
    if r.returncode not in (0, 1):
      print(r.stdout[-1500:], r.stderr[-1500:])
    print("   ", last[:300])
finally:
  if not a.keep:
    shutil.rmtree(d, ignore_errors=True)
