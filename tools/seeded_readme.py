#!/usr/bin/env python3
import json, glob, os
rows=[]
for d in sorted(glob.glob('/verif/seeded/*/meta.json')):
    m=json.load(open(d))
    c=m.get('confirmed',{})
    rows.append("| %s | %s | %s | %s | %s | %s |" % (m['id'], m['property'], m['what'].replace('|','/'), m['needs_to_manifest'].replace('|','/'), ", ".join(m['detected_by']), m['note'].replace('|','/')))
out="""# Seeded property-breaking changes

Each directory holds one change written by an independent sub-agent that was given only the text of one
property and its own scratch git worktree of the repository (nothing from /verif): `patch.diff` (applies with
`git -C /repo apply`), `demo.py` (exits 1 with the change, 0 without), `agent_README.md` (the agent's own
description), `confirm.log` (my confirmation in a fresh scratch worktree: demo on the clean tree, patch applies,
demo with the patch, the repository's whole suite with the patch) and `meta.json`.

None of these changes is ever committed to /repo. To run the checks against one:
`tools/seeded.sh <id>` (applies the patch to /repo, runs the checks named in meta.json, undoes it) or
`tools/mut.py --checks <ids> --patch seeded/<id>/patch.diff` (scratch copy through VERIF_REPO; used while
background runs were active). `tools/seeds_detect.sh` sweeps all of them.

All %d changes keep the repository's 714 tests green and all are detected by the quick tier of the checks listed.
"First missed" entries are the ones that made me strengthen a check; the note says what was added.

| id | property | change | needs to manifest | caught by | note |
|---|---|---|---|---|---|
%s
""" % (len(rows), "\n".join(rows))
open('/verif/seeded/README.md','w').write(out)
print(len(rows))
