#!/bin/bash
# tools/confirm_seed.sh <seed-id>: in a fresh scratch worktree of /repo HEAD (outside /repo and /verif) confirm that
#  - the demo exits 0 on the clean tree, - the patch applies, - the demo exits non-zero with the patch,
#  - the repository's whole suite still passes with the patch (714 passed).   Writes seeded/<id>/confirm.log
cd "$(dirname "$0")/.."
id=$1; dir=$PWD/seeded/$id; wt=/tmp/cs_$id
git -C /repo worktree add -q --detach $wt HEAD || exit 2
{
  cd $wt
  echo "== head $(git rev-parse --short HEAD)"
  mkdir -p SEED; cp $dir/demo.py SEED/demo.py
  PYTHONPATH=$wt JAX_PLATFORMS=cpu timeout 1200 /venv/bin/python SEED/demo.py >/tmp/cs_$id.clean.out 2>&1; echo "demo_clean_exit=$?"
  git apply $dir/patch.diff; echo "apply_exit=$?"
  PYTHONPATH=$wt JAX_PLATFORMS=cpu timeout 1200 /venv/bin/python SEED/demo.py >/tmp/cs_$id.mut.out 2>&1; echo "demo_mutant_exit=$?"
  tail -3 /tmp/cs_$id.mut.out | cut -c1-300
  if [ "${SUITE:-1}" = 1 ]; then
    PYTHONPATH=$wt /venv/bin/python -m pytest -q -p no:cacheprovider --timeout=900 --deselect precondition/distributed_shampoo_test.py::DistributedShampooTest::test_matrix_inverse_root_padding1 --deselect precondition/tearfree/momentum_test.py::MomentumTest::test_basic0 --deselect precondition/tearfree/optimizer_test.py::OptimizerTest::test_lr 2>&1 | tail -1 | sed 's/^/suite: /'
  fi
} > $dir/confirm.log 2>&1
cd /verif; git -C /repo worktree remove --force $wt; rm -f /tmp/cs_$id.*.out
cat $dir/confirm.log
