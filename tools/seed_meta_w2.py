import json,os
M = {
 "C06_m1": ("C06","BlockPartitioner.partition/merge_partitions iterate the split axes in swapped (mutually consistent) orders, so blocks come out last-axis-major while shapes_for_preconditioners stays first-axis-major","at least two split axes, one of them ragged",["C06"],"caught (blocks differ from the contiguous slices in row-major order)"),
 "C06_m2": ("C06","tearfree _deblockify forgets the small axes between the two large axes","two large axes with a non-unit small axis between them and more than one block on the right axis",["C06"],"caught by the exact-multiple lattice (shape (2,6,2,6), block 3)"),
 "C08_m1": ("C08","paddings built from the already padded statistics in the pmap path (identity padding is no longer masked)","a statistic smaller than max_size (larger companion / ragged block) and largest eigenvalue below 1",["C08"],"caught by the 3x3/b4 layout with the 'large' companion and 2^-20-scaled gradients (layout added after an own mutant of the same kind was missed)"),
 "C08_m2": ("C08","tearfree eigenvalue cut-off relative to the maximum over all blocks (the upstream defect fixed in 50eb96d, reintroduced)","a blocked parameter whose blocks differ in gradient scale by >= 1e3",["C08","C15"],"caught by both"),
 "C10_m1": ("C10","_low_rank_root no longer masks the padding of its input","input padded with the identity block the optimizer uses and a real eigenvalue <= 1",["C10"],"caught (padding 3 carries garbage/identity in the check's inputs)"),
 "C10_m2": ("C10","has_zeros flag applied once per block instead of per axis","gradient of rank >= 2 with flags that differ across axes",["C10"],"caught (every has_zeros pattern is enumerated)"),
 "C11_m1": ("C11","ratio computed as fvalue*num_buckets/max_abs (overflows for near-overflow magnitudes; flushed under jit)","column max-abs above ~1e34 (int16) / 2.7e36 (int8)",["C11"],"caught (all 254 exponents are in the lattice)"),
 "C11_m2": ("C11","diagonal split hoisted above the float32/bfloat16 early returns; to_float never adds it back","storage dtype float32/bfloat16 together with extract_diagonal=True",["C11"],"missed at first (pass-through dtypes were only run without extract_diagonal); added"),
 "C12_m1": ("C12","beta2 applied twice for rank >= 2 (half-finished hoist)","rank >= 2, beta2 < 1, at least two steps",["C12"],"caught (cover and step bound, exact for dyadic beta2)"),
 "C12_m2": ("C12","weight decay folded into the gradient before the statistics","weight_decay > 0 and non-zero parameters",["C12"],"caught"),
 "C14_m1": ("C14","power-iteration RandomState hoisted to module scope (trace-time draw depends on process history)","resume into a new optimizer object (re-trace) and a preconditioner recomputation afterwards",["C14"],"caught by the in-process fresh-object resume"),
 "C14_m2": ("C14","power-iteration seed derived from Python's salted hash() of a string","resume in a different interpreter process with another hash salt",["C14"],"missed at first (fresh-process resume was thorough-only and inherited PYTHONHASHSEED); quick now restores three optimizers in a fresh process with a different PYTHONHASHSEED"),
 "C15_m1": ("C15","tearfree Shampoo root refresh AND-ed with the statistics step","update_statistics_freq=2 with update_preconditioners_freq=3, step 3",["C04","C15"],"C04 caught it at once; C15 needed the (2,3)/(3,2) pairs with histories of depth 5"),
 "C15_m2": ("C15","weight decay after momentum appended inside 'if momentum_decay'","momentum_decay=0 with weight_decay>0 (after momentum)",["C15"],"missed by the single deviations of quick; the pair was added (thorough's 2-deviation sweep covers it anyway)"),
 "C16_m1": ("C16","train loop takes the row index from the per-chunk loop counter","at least two non-empty observation chunks in _compiled_run_dataset",["C16"],"missed at first (only the update functions were driven); C16 now runs the dataset loop over every chunking of every row sequence"),
 "C16_m2": ("C16","module-level cache of bound init/update functions keyed without delta/lr","a second binding of the same (shape, algorithm, sketch size) with other delta/lr in one process",["C16"],"missed deterministically at first; every task now binds the algorithm with other hyper-parameters first"),
 "C17_m2": ("C17","leftover hand-out skips only layers recorded as outliers","a share that floors to exactly dim-1 plus a leftover unit",["C17"],"caught"),
}
for sid,(prop,what,needs,det,note) in M.items():
    d='/verif/seeded/'+sid
    conf=open(d+'/confirm.log').read() if os.path.exists(d+'/confirm.log') else ''
    meta={"id":sid,"property":prop,"written_by":"independent sub-agent given only the property text and its own scratch worktree",
          "what":what,"needs_to_manifest":needs,"detected_by":det,"note":note,
          "confirmed":{"how":"tools/confirm_seed.sh %s (fresh scratch worktree of /repo HEAD under /tmp, removed afterwards)"%sid,
                       "demo_on_clean_tree_exit":0 if "demo_clean_exit=0" in conf else None,
                       "demo_with_patch_exit":1 if "demo_mutant_exit=1" in conf else None,
                       "repository_suite_with_patch":[l for l in conf.splitlines() if l.startswith('suite:')][0][7:] if 'suite:' in conf else None},
          "checks_run":"tools/mut.py --checks %s --patch seeded/%s/patch.diff  (quick tier, scratch copy through VERIF_REPO): exit 1 with VIOLATION lines for every check listed in detected_by" % (",".join(det),sid)}
    json.dump(meta,open(d+'/meta.json','w'),indent=1)
print(len(M))
