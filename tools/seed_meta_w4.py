import json,os
M = {
 "C06_m3": ("C06","preconditioned_grad: the roll of a skipped axis replaced by swapaxes(0, rank-1)","PreconditionerType INPUT/OUTPUT (an axis without preconditioner) on a gradient of rank >= 3",["C06"],"caught (partition/merge lattice drives Preconditioner with every type on rank 0..5)"),
 "C06_m4": ("C06","tearfree reshaper: no padding when a merged dim is below the block size","block_size > some merged dim while another merged dim is not a multiple of it",["C06"],"caught (dim not padded to a multiple of the block)"),
 "C08_m3": ("C08","pad_and_maybe_zero_preconditioners: padding start recorded after padding (= common size)","statistics of different sizes in one optimizer (a larger companion parameter)",["C08"],"caught by the 3x3/b4 layout next to the large companion"),
 "C08_m4": ("C08","batch(): statistics dealt round-robin to the devices while unbatch() gathers contiguously","pmap over >= 2 devices with more statistics than devices",["C13","C08"],"C13 caught it at once (device runs differ from the one-device run); C08 missed it (no multi-device run) and gained the pmap differential"),
 "C10_m3": ("C10","_low_rank_root: eigenvalue floor uses the raw epsilon after a rename of the derived ridge","relative ridge, largest eigenvalue below 1, eigenvalues below epsilon",["C10"],"missed at first (relative ridge only exercised with epsilon 1e-12 on spectra of scale 1); C10 gained scaled spectra and the relative ridge 1e-2 with the ridge recovered from the returned constant"),
 "C10_m4": ("C10","_low_rank_root: spectrum normalized by max_ev and un-normalized with a square root whatever p","relative ridge, p != 2, largest eigenvalue != 1",["C10"],"caught marginally at first (1.02e-8 against 1e-8); decisively after the scaled spectra were added"),
 "C11_m3": ("C11","quantize: zero bucket replaced by max(bucket, 1e-30) instead of a select","columns whose bucket size is below 1e-30 (max-abs below 1.3e-28 for int8)",["C11"],"caught (full exponent lattice)"),
 "C11_m4": ("C11","quantize: bucket sizes squeezed over every unit axis","a quantized tensor of rank >= 2 with a unit axis behind axis 0",["C11"],"missed at first (broadcast hid the wrong shape); C11 gained the layout check of integers / bucket sizes / dequantized values on every shape over dims {1,2,3}"),
 "C12_m3": ("C12","SM3: decay folded into the running minimum (beta2^(k-1) instead of beta2 once)","beta2 < 1 and rank >= 3",["C12"],"caught (cover invariant on 2x3x2)"),
 "C12_m4": ("C12","SM3: normalized gradients used for the step but the raw ones for the accumulators","normalize_grads=True",["C12"],"caught (rank-1 equivalence with normalization)"),
 "C17_m3": ("C17","create_redist_dict: leftover hand-out moved to a second loop whose cap reads the stale loop variable dim of the last group","two groups of different dimension in one call, the smaller one visited first, an axis at its cap and unspent budget; the visiting order follows a Python set of layer names",["C17"],"caught (rank dim+1); C17 additionally enumerates every instance under the reversed layer naming so that both visiting orders are explored"),
 "C17_m4": ("C17","create_redist_dict: cap test skipped after the first score that fits","base rank equal to (or one below) the dimension with tied or nearly tied top scores",["C17"],"caught (the routine dies on its own assert / rank above the dimension)"),
 "C16_m3": ("C16","_fd_update_fn: alpha read before this step's escaped mass is added (stale alias after hoisting locals), so the step is preconditioned with alpha_{t-1}","RFD_SON or S_ADA and a step at which mass escapes the sketch (history rank >= sketch size)",["C16"],"caught; C16 also gained the applied-diagonal step check for S_ADA (step against P, e, alpha after the update)"),
 "C16_m4": ("C16","_fd_update_fn: safe inversion cut-off eps raised from 0 to 1e-12 (absolute)","delta <= 1e-12 and accumulated squared gradients <= 1e-12 (tiny gradients)",["C16"],"caught by the tiny-gradient tasks (gradient scale 2^-24, delta 2^-44)"),
}
for sid,(prop,what,needs,det,note) in M.items():
    d='/verif/seeded/'+sid
    conf=open(d+'/confirm.log').read() if os.path.exists(d+'/confirm.log') else ''
    meta={"id":sid,"property":prop,"written_by":"independent sub-agent (fourth wave: given the property text, a focus area and its own scratch worktree)",
          "what":what,"needs_to_manifest":needs,"detected_by":det,"note":note,
          "confirmed":{"how":"tools/confirm_seed.sh %s (fresh scratch worktree of /repo HEAD under /tmp, removed afterwards)"%sid,
                       "demo_on_clean_tree_exit":0 if "demo_clean_exit=0" in conf else None,
                       "demo_with_patch_exit":1 if "demo_mutant_exit=1" in conf else None,
                       "repository_suite_with_patch":[l for l in conf.splitlines() if l.startswith('suite:')][0][7:] if 'suite:' in conf else None},
          "checks_run":"tools/mut.py --checks %s --patch seeded/%s/patch.diff  (quick tier, scratch copy through VERIF_REPO): exit 1 with VIOLATION lines for every check listed in detected_by" % (",".join(det),sid)}
    json.dump(meta,open(d+'/meta.json','w'),indent=1)
print(len(M))
