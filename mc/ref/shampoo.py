"""Independent float64 reference model of Distributed Shampoo (blocked).

Written from the docstrings of distributed_shampoo() and the paper, in plain
NumPy: merge small dims -> blocks -> L <- w1 L + w2 G_(i) G_(i)^T on
statistics steps -> P = (L + d I)^(-1/p) by dense eigh on preconditioner
steps -> apply along every preconditioned axis -> graft rescale -> coupled
weight decay -> momentum -> Nesterov -> decoupled weight decay -> lr.

The only things taken from the implementation are *reported* environment
answers: per statistic the reported root error (gate decision), largest
eigenvalue estimate and retry count (they determine the ridge actually used).
"""
import itertools

import numpy as np

EPS25 = 1e-25


def merge_small_dims(shape, limit):
  shape = list(shape)
  if shape and all(d == 1 for d in shape):
    return [1]
  out, prod = [], 1
  for d in shape:
    if prod * d <= limit:
      prod *= d
    else:
      if prod > 1:
        out.append(prod)
      prod = d
  if prod > 1:
    out.append(prod)
  return out


def block_ranges(shape, bs):
  per_axis = []
  for d in shape:
    if 0 < bs < d:
      per_axis.append([(a, min(a + bs, d)) for a in range(0, d, bs)])
    else:
      per_axis.append([(0, d)])
  return list(itertools.product(*per_axis))


BASE = dict(
    learning_rate=0.25, block_size=4, beta1=0.9, beta2=0.999,
    diagonal_epsilon=1e-10, matrix_epsilon=1e-6, weight_decay=0.0,
    start_preconditioning_step=1, preconditioning_compute_steps=1,
    statistics_compute_steps=1, best_effort_shape_interpretation=True,
    graft_type=1, nesterov=True, exponent_override=0,
    inverse_failure_threshold=0.1, moving_average_for_momentum=False,
    skip_preconditioning_dim_size_gt=4096, clip_by_scaled_gradient_norm=None,
    relative_matrix_epsilon=True, merge_small_dims_block_size=4096,
    precondtioner_type=1, skip_preconditioning_rank_lt=1,
    decoupled_learning_rate=True, decoupled_weight_decay=False, eigh=False,
    decay_preconditioning_compute_steps=False,
    end_preconditioning_compute_steps=None,
)


def lr_fn(spec):
  """spec: float or {'sched': name, ...}.  Returns python callable t->lr."""
  if isinstance(spec, dict):
    kind = spec["sched"]
    if kind == "lin":       # lr(t) = a * max(1 - t/T, m)
      a, T, m = spec.get("a", 0.25), spec.get("T", 8), spec.get("m", 0.125)
      return lambda t: a * max(1.0 - t / T, m)
    if kind == "half":      # lr(t) = a * 2^-(t // k)
      a, k = spec.get("a", 0.25), spec.get("k", 2)
      return lambda t: a * 0.5 ** (t // k)
    raise KeyError(kind)
  return lambda t: spec


def scheduled_interval(cfg, t):
  """Documented schedule: round down to a multiple of 10, at least 1."""
  f = lr_fn(cfg["learning_rate"])
  start = cfg["preconditioning_compute_steps"]
  end = cfg["end_preconditioning_compute_steps"]
  v = start + (1 - f(t) / f(0)) * end
  return max((v // 10) * 10, 1)


class Leaf:

  def __init__(self, cfg, shape, param):
    self.cfg = cfg
    self.shape = tuple(shape)
    self.param = np.asarray(param, np.float64)
    c = cfg
    self.tshape = (merge_small_dims(shape, c["merge_small_dims_block_size"])
                   if c["best_effort_shape_interpretation"] else list(shape))
    self.skip = (len(shape) < c["skip_preconditioning_rank_lt"] or
                 any(s > c["skip_preconditioning_dim_size_gt"] for s in shape))
    self.blocks = block_ranges(self.tshape, c["block_size"])
    rank = len(self.tshape)
    pt = c["precondtioner_type"]
    if pt == 1 or rank <= 1:
      self.axes = list(range(rank))
    elif pt == 2:
      self.axes = list(range(rank - 1))
    else:
      self.axes = [rank - 1]
    self.p = c["exponent_override"] or 2 * len(self.axes)
    self.stats, self.precs = [], []
    if not self.skip:
      for blk in self.blocks:
        for ax in self.axes:
          d = blk[ax][1] - blk[ax][0]
          self.stats.append(c["matrix_epsilon"] * np.eye(d))
          self.precs.append(np.eye(d))
    self.acc = np.zeros(self.shape)
    self.mom = np.zeros(self.shape)
    self.dmom = np.zeros(self.shape)

  def copy(self):
    o = object.__new__(Leaf)
    o.__dict__.update(self.__dict__)
    o.stats = [s.copy() for s in self.stats]
    o.precs = [s.copy() for s in self.precs]
    o.acc, o.mom, o.dmom = self.acc.copy(), self.mom.copy(), self.dmom.copy()
    return o

  def update_stats(self, g):
    c = self.cfg
    b2 = c["beta2"]
    w1, w2 = b2, (1.0 if b2 == 1.0 else 1.0 - b2)
    gt = g.reshape(self.tshape)
    k = 0
    for blk in self.blocks:
      gb = gt[tuple(slice(a, b) for a, b in blk)]
      for ax in self.axes:
        m = np.moveaxis(gb, ax, 0).reshape(gb.shape[ax], -1)
        self.stats[k] = w1 * self.stats[k] + w2 * (m @ m.T)
        k += 1

  def root(self, k, obs):
    c = self.cfg
    L = self.stats[k]
    eps = c["matrix_epsilon"]
    if c["eigh"]:
      lmax = float(np.linalg.eigvalsh(L)[-1]) if L.size else 0.0
      d = eps * (max(lmax, 1e-6) if c["relative_matrix_epsilon"] else 1.0)
    else:
      n = L.shape[0]
      f = 10.0 ** (max(float(obs["retries"][k]), 1.0) - 1.0) if n > 1 else 1.0
      if c["relative_matrix_epsilon"]:
        d = eps * max(float(obs["max_ev"][k]), EPS25) * f
      else:
        d = eps * f
    A = L + d * np.eye(L.shape[0])
    if c["eigh"]:
      # the eigendecomposition route symmetrises its input
      w, v = np.linalg.eigh((A + A.T) / 2)
      w = np.maximum(w, d)
      return (v * w ** (-1.0 / self.p)) @ v.T, d, (w[-1] / w[0] if w[0] > 0
                                                  else np.inf)
    if np.array_equal(A, A.T):
      w, v = np.linalg.eigh(A)
      return (v * w ** (-1.0 / self.p)) @ v.T, d, (w[-1] / w[0] if w[0] > 0
                                                  else np.inf)
    # int16-quantised statistics are not exactly symmetric (per-column
    # buckets): the documented root is the matrix function of the matrix that
    # is actually stored, so use the general eigendecomposition.
    w, v = np.linalg.eig(A)
    root = (v * w.astype(complex) ** (-1.0 / self.p)) @ np.linalg.inv(v)
    wr = np.sort(np.abs(w))
    return np.real(root), d, (wr[-1] / wr[0] if wr[0] > 0 else np.inf)

  def precondition(self, g, precs):
    gt = g.reshape(self.tshape)
    out = np.zeros_like(gt)
    k = 0
    for blk in self.blocks:
      sl = tuple(slice(a, b) for a, b in blk)
      gb = gt[sl]
      for ax in self.axes:
        # out[.., j, ..] = sum_i g[.., i, ..] P[i, j] (the documented
        # application; identical to P g for the symmetric roots, and the
        # convention that matters for int16-quantised, slightly
        # non-symmetric stored preconditioners)
        gb = np.moveaxis(np.tensordot(precs[k], gb, axes=[[0], [ax]]), 0, ax)
        k += 1
      out[sl] = gb
    return out.reshape(self.shape)


class RefShampoo:
  """mode: 'rep' (replicated / pmap) or 'sharded'."""

  def __init__(self, cfg, params, mode="rep"):
    self.cfg = dict(BASE)
    self.cfg.update(cfg)
    self.mode = mode
    self.count = 0
    self.leaves = {k: Leaf(self.cfg, np.shape(v), v) for k, v in
                   params.items()}
    self.kappa = 1.0   # largest regularised condition number seen
    self.stat_dev = []

  def copy(self):
    o = object.__new__(RefShampoo)
    o.__dict__.update(self.__dict__)
    o.leaves = {k: v.copy() for k, v in self.leaves.items()}
    return o

  def interval(self, t):
    c = self.cfg
    if (c["decay_preconditioning_compute_steps"] and
        c["end_preconditioning_compute_steps"] and
        isinstance(c["learning_rate"], dict)):
      return scheduled_interval(c, t)
    return c["preconditioning_compute_steps"]

  def step(self, grads, obs):
    """grads: {leaf: array}; obs: {leaf: {err,max_ev,retries}} (post-step).

    Returns {leaf: update}.  obs is only consulted on refresh steps.
    """
    c = self.cfg
    t = self.count
    lr = lr_fn(c["learning_rate"])(t)
    out = {}
    self.stat_dev = []
    thr = c["inverse_failure_threshold"]
    for name, lf in self.leaves.items():
      g = np.asarray(grads[name], np.float64)
      use = lf.precs
      if not lf.skip:
        if t % c["statistics_compute_steps"] == 0:
          lf.update_stats(g)
        # Stage check + re-synchronisation: the implementation's stored
        # (float32) statistics must equal the reference accumulation to
        # float32 rounding; the root is then taken of exactly the matrix the
        # implementation holds, so that the ill-conditioning of a
        # rank-deficient statistic cannot amplify float32 rounding into the
        # update comparison.
        if obs[name].get("stats") is not None:
          if len(obs[name]["stats"]) != len(lf.stats):
            # wrong number of statistics for this leaf: reported as an
            # infinite deviation, the reference keeps its own statistics
            self.stat_dev.append((name, -1, float("inf")))
            obs = dict(obs)
            obs[name] = dict(obs[name], stats=[])
            obs[name]["err"] = np.full(len(lf.stats), np.nan)
          for k, simpl in enumerate(obs[name]["stats"]):
            simpl = np.asarray(simpl, np.float64)
            sref = lf.stats[k]
            if simpl.shape != sref.shape:
              self.stat_dev.append((name, k, float("inf")))
              continue
            dev = np.max(np.abs(simpl - sref)) / max(np.max(np.abs(sref)),
                                                     1e-300)
            self.stat_dev.append((name, k, float(dev)))
            lf.stats[k] = simpl
        refresh = (t % self.interval(t) == 0)
        if self.mode == "sharded":
          use = [p.copy() for p in lf.precs]
        if refresh:
          for k in range(len(lf.stats)):
            err = float(obs[name]["err"][k])
            if np.isnan(err) or err >= thr:
              continue
            pnew, _, kap = lf.root(k, obs[name])
            self.kappa = max(self.kappa, kap)
            lf.precs[k] = pnew
        if self.mode != "sharded":
          use = lf.precs
      out[name] = self.transform(lf, g, use, lr, t)
    self.count += 1
    return out

  def transform(self, lf, g, precs, lr, t):
    c = self.cfg
    gt = c["graft_type"]
    b2 = c["beta2"]
    de = c["diagonal_epsilon"]
    if gt in (2, 6):
      sg = g / (np.linalg.norm(g) + EPS25) if gt == 6 else g
      lf.acc = lf.acc + sg * sg
      graft = sg / (np.sqrt(lf.acc) + de)
    elif gt in (3, 4):
      sg = g / (np.linalg.norm(g) + EPS25) if gt == 4 else g
      w2 = 1.0 if b2 == 1.0 else 1.0 - b2
      lf.acc = b2 * lf.acc + w2 * sg * sg
      graft = sg / (np.sqrt(lf.acc) + de)
      clip = c["clip_by_scaled_gradient_norm"]
      if clip:
        sn = np.linalg.norm(graft) / np.sqrt(float(graft.size))
        graft = graft / max(1.0, sn / clip)
    elif gt in (0, 1):
      graft = g
    else:
      graft = np.sign(g)
    dec_lr = c["decoupled_learning_rate"]
    graft = graft * (1.0 if dec_lr else lr)
    if lf.skip:
      pg = graft
    else:
      pg = lf.precondition(g, precs)
    if gt != 0:
      mult = np.linalg.norm(graft) / (np.linalg.norm(pg) + EPS25)
    else:
      mult = 1.0
    sh = pg * mult
    wd = c["weight_decay"]
    sh_wd, gr_wd = sh, graft
    if wd != 0 and not c["decoupled_weight_decay"]:
      sh_wd = sh + wd * lf.param
      gr_wd = graft + wd * lf.param
    b1 = c["beta1"]
    w = (1.0 - b1) if c["moving_average_for_momentum"] else 1.0
    lf.mom = b1 * lf.mom + w * sh_wd
    lf.dmom = b1 * lf.dmom + w * gr_wd
    run = t >= c["start_preconditioning_step"]
    mu = lf.mom if run else lf.dmom
    wu = sh_wd if run else gr_wd
    nu = (w * wu + b1 * mu) if c["nesterov"] else mu
    if wd != 0 and c["decoupled_weight_decay"]:
      nu = nu + (1.0 if dec_lr else lr) * wd * lf.param
    return -(lr if dec_lr else 1.0) * nu
