"""Independent float64 reference model of the Tearfree optimizer.

Written from the module docstrings:
  update = -lr(t) * momentum(weight_decay(graft(second_order(merge+pad(g)))))
Shampoo: per block and axis C <- decay*C + (1-decay)*G_(i)G_(i)^T (sum when
decay = 1) on statistics steps, exact inverse (2*rank)-th roots on
preconditioner steps with eigenvalues <= 1e-6 * (that block's largest)
treated as zero.  Sketchy: frequent-directions sketch per axis (rank k),
escaped mass t <- decay*t + removed eigenvalue, roots (l + t + eps)^(-1/(2r)).
"""
import itertools

import numpy as np

from mc.ref.shampoo import merge_small_dims


def default_cfg():
  return dict(
      learning_rate=0.25, second_order_type="shampoo", block_size=1024,
      merge_dims=1024, update_preconditioners_freq=1,
      update_statistics_freq=1, second_moment_decay=0.999,
      grafting_type="rmsprop", graft_decay=0.999,
      start_preconditioning_step=0, graft_epsilon=1e-23,
      skip_preconditioning_any_dim_gt=4096, skip_preconditioning_rank1=True,
      ema=False, nesterov=True, momentum_decay=0.9, weight_decay=0.0,
      weight_decay_after_momentum=True,
      sketchy_rank=128, sketchy_epsilon=1e-7, relative_epsilon=True,
      update_freq=1)


def lr_at(spec, t):
  if isinstance(spec, dict):
    return 0.25 * max(1.0 - t / 8, 0.125)
  return spec


class Leaf:

  def __init__(self, cfg, shape, param):
    c = cfg
    self.cfg = c
    self.shape = tuple(shape)
    self.param = np.asarray(param, np.float64)
    gt = c["grafting_type"]
    self.masked = gt != "none" and (
        (c["skip_preconditioning_rank1"] and len(shape) <= 1) or
        any(s > c["skip_preconditioning_any_dim_gt"] for s in shape))
    merged = merge_small_dims(shape, c["merge_dims"])
    if merged == [1]:
      merged = []
    self.merged = merged
    sk = c["second_order_type"] == "sketchy"
    bs = 0 if sk else c["block_size"]
    self.bs = bs
    self.padded = [((s + bs - 1) // bs * bs if bs and s >= bs else s)
                   for s in merged]
    self.rank = len(self.padded)
    self.acc = np.zeros(self.shape)          # rmsprop accumulator
    self.trace = np.zeros(self.shape)        # momentum
    self.near_cutoff = False
    self.zero_tail_amp = 0.0
    self.tail_switch = False
    self.tail_switch_seen = False
    if self.masked:
      return
    if sk:
      self.k = [min(d, c["sketchy_rank"]) for d in self.padded]
      self.V = [np.zeros((d, k)) for d, k in zip(self.padded, self.k)]
      self.l = [np.zeros(k) for k in self.k]       # covariance eigenvalues
      self.tail = [0.0 for _ in self.padded]
      self.inv_l = [np.zeros(k) for k in self.k]
      self.inv_tail = [0.0 for _ in self.padded]
    else:
      per_axis = []
      for d in self.padded:
        if bs and d >= bs:
          per_axis.append([(a, a + bs) for a in range(0, d, bs)])
        else:
          per_axis.append([(0, d)])
      self.blocks = list(itertools.product(*per_axis))
      self.stats = [[np.zeros((b[i][1] - b[i][0],) * 2)
                     for i in range(self.rank)] for b in self.blocks]
      self.roots = [[np.eye(b[i][1] - b[i][0]) for i in range(self.rank)]
                    for b in self.blocks]

  def copy(self):
    import copy
    return copy.deepcopy(self)

  # -- second order ---------------------------------------------------
  def second_order(self, g, t):
    c = self.cfg
    x = g.reshape(self.merged)
    if self.bs and x.ndim:
      x = np.pad(x, [(0, int(p - m)) for p, m in zip(self.padded,
                                                     self.merged)])
    if c["second_order_type"] == "sketchy":
      y = self._sketchy(x, t)
    else:
      y = self._shampoo(x, t)
    if self.bs and x.ndim:
      y = y[tuple(slice(0, m) for m in self.merged)]
    return y.reshape(self.shape)

  def _shampoo(self, x, t):
    c = self.cfg
    dec = c["second_moment_decay"]
    if t % c["update_statistics_freq"] == 0:
      for bi, blk in enumerate(self.blocks):
        xb = x[tuple(slice(a, b) for a, b in blk)]
        for ax in range(self.rank):
          m = np.moveaxis(xb, ax, 0).reshape(xb.shape[ax], -1)
          cov = m @ m.T
          if dec == 1.0:
            self.stats[bi][ax] = self.stats[bi][ax] + cov
          else:
            self.stats[bi][ax] = dec * self.stats[bi][ax] + (1 - dec) * cov
    if t % c["update_preconditioners_freq"] == 0:
      p = 2 * self.rank
      for bi in range(len(self.blocks)):
        for ax in range(self.rank):
          w, v = np.linalg.eigh(self.stats[bi][ax])
          wmax = w.max() if w.size else 0.0
          mask = w <= 1e-6 * wmax
          if wmax > 0:
            ratio = np.abs(w) / wmax
            # float64 eigenvalues are accurate to ~1e-16 of the maximum, so
            # only ratios next to the documented 1e-6 cut-off are ambiguous
            if np.any((ratio > 0.25e-6) & (ratio < 4e-6)):
              self.near_cutoff = True
          r = np.where(mask, 0.0, np.where(mask, 1.0, w) ** (-1.0 / p))
          self.roots[bi][ax] = (v * r) @ v.T
    out = np.zeros_like(x)
    for bi, blk in enumerate(self.blocks):
      sl = tuple(slice(a, b) for a, b in blk)
      xb = x[sl]
      for ax in range(self.rank):
        xb = np.moveaxis(np.tensordot(self.roots[bi][ax], xb,
                                      axes=[[1], [ax]]), 0, ax)
      out[sl] = xb
    return out

  def _sketchy(self, x, t):
    c = self.cfg
    dec = c["second_moment_decay"]
    if x.ndim == 0:
      return x
    alpha = -1.0 / (2 * x.ndim)
    if t % c["update_freq"] == 0:
      for ax in range(x.ndim):
        d, k = self.padded[ax], self.k[ax]
        m = np.moveaxis(x, ax, 0).reshape(d, -1)
        cov = dec * (self.V[ax] * self.l[ax]) @ self.V[ax].T + m @ m.T
        w, v = np.linalg.eigh(cov)
        w, v = w[::-1], v[:, ::-1]
        w = np.maximum(w, 0.0)
        cutoff = w[k] if k < d else 0.0
        top = w[:k]
        defl = np.maximum(top - cutoff, 0.0)
        tail = dec * self.tail[ax] + cutoff
        undefl = top + dec * self.tail[ax]
        # a direction whose deflated eigenvalue vanishes carries exactly the
        # escaped mass (undeflated == tail), so masking it or not denotes the
        # same preconditioner; float64 noise is cut at 1e-9 of the top
        mask = defl > 1e-9 * (top.max() if top.size else 0.0)
        eps = c["sketchy_epsilon"]
        if c["relative_epsilon"] and eps > 0:
          eps = (undefl.max() if undefl.size else 0.0) * eps
        self.V[ax] = v[:, :k] * mask
        self.l[ax] = defl * mask
        self.inv_l[ax] = np.where(mask, (undefl + eps) ** alpha, 0.0)
        self.tail[ax] = tail
        self.inv_tail[ax] = (tail + eps) ** alpha if tail > 0 else 0.0
        # conditioning of the `tail > 0` switch: when the exact escaped mass
        # is zero a float32 implementation may see 1e-14 instead and then
        # multiplies the (numerically ~u*|g|) complement by (eps)^alpha
        lam = undefl.max() if undefl.size else 0.0
        if tail <= 1e-12 * max(lam, 1e-300) and lam > 0 and k < d:
          amp = ((eps if eps > 0 else 1e-14 * lam) / lam) ** alpha
          self.zero_tail_amp = max(self.zero_tail_amp, amp)
    y = x
    self.tail_switch = False
    for ax in range(x.ndim):
      v = self.V[ax]
      proj = np.tensordot(v.T, y, axes=[[1], [ax]])          # k x ...
      low = np.moveaxis(np.tensordot(v, proj, axes=[[1], [0]]), 0, ax)
      # `inv_tail = where(tail > 0, (tail+eps)^alpha, 0)` is discontinuous at
      # tail = 0: with an exactly lossless history and a gradient that has a
      # real component outside the sketch (off-schedule steps) exact
      # arithmetic drops that component while any rounding residue in the
      # tail multiplies it by eps^alpha.  Such a leaf is undecidable.
      lam_ax = (self.l[ax].max() if self.l[ax].size else 0.0) + self.tail[ax]
      if self.tail[ax] <= 1e-12 * max(lam_ax, 1e-300) and \
          self.k[ax] < self.padded[ax] and \
          np.linalg.norm(y - low) > 1e-4 * max(np.linalg.norm(y), 1e-300):
        self.tail_switch = True
        self.tail_switch_seen = True   # sticky: momentum carries it on
      scaled = np.moveaxis(np.tensordot(v * self.inv_l[ax], proj,
                                        axes=[[1], [0]]), 0, ax)
      y = scaled + self.inv_tail[ax] * (y - low)
    return y


class RefTearfree:

  def __init__(self, cfg, params):
    self.cfg = default_cfg()
    self.cfg.update(cfg)
    c = self.cfg
    if c["grafting_type"] in ("none", "sgd") and "graft_decay" not in cfg:
      c["graft_decay"] = 0.0
    self.count = 0
    self.leaves = {k: Leaf(c, np.shape(v), v) for k, v in params.items()}

  def copy(self):
    import copy
    return copy.deepcopy(self)

  @property
  def near_cutoff(self):
    return any(l.near_cutoff for l in self.leaves.values())

  def step(self, grads, adafactor_updates=None):
    """Returns ({leaf: update}, {leaf: pre-momentum step})."""
    c = self.cfg
    t = self.count
    out, pre = {}, {}
    for name, lf in self.leaves.items():
      g = np.asarray(grads[name], np.float64)
      gt = c["grafting_type"]
      if gt == "none":
        u = lf.second_order(g, t)
      else:
        if gt == "sgd":
          graft = g
        elif gt == "rmsprop":
          d = c["graft_decay"]
          lf.acc = (lf.acc + g * g) if d == 1.0 else \
              ((1 - d) * g * g + d * lf.acc)
          graft = g / np.sqrt(lf.acc + c["graft_epsilon"])
        else:
          graft = np.asarray(adafactor_updates[name], np.float64)
        if lf.masked:
          u = graft
        else:
          base = lf.second_order(g, t)
          bn = np.linalg.norm(base)
          mult = np.linalg.norm(graft) / bn if bn > 0 else 0.0
          u = base * mult if t >= c["start_preconditioning_step"] else graft
      pre[name] = u
      wd = c["weight_decay"]
      if wd > 0 and not c["weight_decay_after_momentum"]:
        u = u + wd * lf.param
      md = c["momentum_decay"]
      if md:
        if c["ema"]:
          u = u * (1 - md)
        lf.trace = md * lf.trace + u
        u = (md * lf.trace + u) if c["nesterov"] else lf.trace
      if wd > 0 and c["weight_decay_after_momentum"]:
        u = u + wd * lf.param
      out[name] = -lr_at(c["learning_rate"], t) * u
    self.count += 1
    return out, pre
