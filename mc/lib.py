"""Shared helpers for property modules (worker side)."""
import collections
import hashlib
import itertools
import json

import numpy as np


class Acc:
  """Accumulates what one task explored."""

  def __init__(self, name=""):
    self.name = name
    self.states = 0
    self.transitions = 0
    self.evaluations = 0
    self.nontrivial = 0
    self.traces = 0
    self.inconclusive = 0
    self.outcomes = collections.Counter()
    self.violations = []
    self._sigs = set()
    self.samples = []
    self.caps = []
    self.extra = {}

  def outcome(self, label, n=1):
    self.outcomes[label] += n

  def sample(self, s):
    if len(self.samples) < 2:
      self.samples.append(s)

  def violation(self, sig, what, case=None, kf=None, replay_task=None,
                **more):
    """sig: stable identifier of the failing case (dedup key)."""
    sig = str(sig)
    if sig in self._sigs:
      return
    self._sigs.add(sig)
    # cap per known-finding class so a flood of one class can never hide
    # a violation of another class
    ck = json.dumps(kf, sort_keys=True, default=str)
    self._per_class = getattr(self, "_per_class", collections.Counter())
    self._per_class[ck] += 1
    if self._per_class[ck] > 12:
      self.outcomes["violations_beyond_cap"] += 1
      return
    v = {"sig": sig, "what": what}
    if case is not None:
      v["case"] = case
    if kf is not None:
      v["kf"] = kf
    if replay_task is not None:
      v["replay_task"] = replay_task
    v.update(more)
    self.violations.append(v)

  def result(self):
    r = {
        "states": self.states, "transitions": self.transitions,
        "evaluations": self.evaluations or self.transitions,
        "nontrivial": self.nontrivial, "traces": self.traces,
        "inconclusive": self.inconclusive, "outcomes": dict(self.outcomes),
        "violations": self.violations, "samples": self.samples,
        "caps": self.caps,
    }
    r.update(self.extra)
    return r


def tree_hash(tree, extra=b""):
  """Bit-exact canonical hash of a pytree (treedef + dtype/shape/bytes)."""
  import jax
  leaves, treedef = jax.tree_util.tree_flatten(tree)
  h = hashlib.blake2b(digest_size=16)
  h.update(repr(treedef).encode())
  for leaf in leaves:
    a = np.asarray(leaf)
    h.update(str(a.dtype).encode())
    h.update(str(a.shape).encode())
    h.update(np.ascontiguousarray(a).tobytes())
  h.update(extra)
  return h.hexdigest()


def arr_hash(*arrs):
  h = hashlib.blake2b(digest_size=16)
  for a in arrs:
    a = np.asarray(a)
    h.update(str(a.dtype).encode() + str(a.shape).encode())
    h.update(np.ascontiguousarray(a).tobytes())
  return h.hexdigest()


def leaves_equal_bitwise(a, b):
  a = np.asarray(a)
  b = np.asarray(b)
  if a.dtype != b.dtype or a.shape != b.shape:
    return False
  return np.ascontiguousarray(a).tobytes() == np.ascontiguousarray(b).tobytes()


def trees_equal_bitwise(t1, t2):
  import jax
  l1, d1 = jax.tree_util.tree_flatten(t1)
  l2, d2 = jax.tree_util.tree_flatten(t2)
  if d1 != d2 or len(l1) != len(l2):
    return False
  return all(leaves_equal_bitwise(a, b) for a, b in zip(l1, l2))


def bounded_histories(alphabet, depth):
  """All sequences over alphabet with length 1..depth (shortest first)."""
  for n in range(1, depth + 1):
    for h in itertools.product(alphabet, repeat=n):
      yield h


def chunks(seq, n):
  seq = list(seq)
  k = max(1, (len(seq) + n - 1) // n)
  return [seq[i:i + k] for i in range(0, len(seq), k)]


def rng(seed, *salt):
  s = hashlib.sha256(json.dumps([seed, salt], default=str).encode()).digest()
  return np.random.RandomState(int.from_bytes(s[:4], "little"))


def maxabs(x):
  x = np.asarray(x, dtype=np.float64)
  return float(np.max(np.abs(x))) if x.size else 0.0


def close(a, b, rtol, atol=0.0):
  """|a-b| <= atol + rtol * max|b| (norm-wise, max norm)."""
  a = np.asarray(a, dtype=np.float64)
  b = np.asarray(b, dtype=np.float64)
  if a.shape != b.shape:
    return False, float("inf")
  if not (np.all(np.isfinite(a)) and np.all(np.isfinite(b))):
    same = np.array_equal(np.isnan(a), np.isnan(b)) and np.array_equal(
        np.where(np.isfinite(a), 0, a), np.where(np.isfinite(b), 0, b))
    if not same:
      return False, float("inf")
    a = np.where(np.isfinite(a), a, 0)
    b = np.where(np.isfinite(b), b, 0)
  d = maxabs(a - b)
  scale = maxabs(b)
  return d <= atol + rtol * scale, (d / scale if scale > 0 else d)


def on_path(task, h2):
  """Replay mode: task['only_history'] restricts the exploration to the
  prefixes of one recorded history (tokens that are not events are ignored)."""
  only = task.get("only_history") if task else None
  if not only:
    return True
  return list(h2) == list(only[:len(h2)])


def bfs(acc, s0, r0, events, depth, step, ref_step, check, canon,
        max_states=200000, task=None):
  """Explicit-state BFS over the real transition function.

  step(state, ev) -> (out, state'); ref_step(ref, ev) -> (ref_out, ref');
  check(hist, state, ev, out, state2, ref, ref_out, ref2) reports through acc.
  States are merged only when canon(state, ref) (bit exact) coincide.
  Returns the list of (state, ref, hist) reached at the last level.
  """
  seen = {canon(s0, r0)}
  acc.states += 1
  frontier = [(s0, r0, ())]
  for _ in range(depth):
    nxt = []
    for s, r, hist in frontier:
      for ev in events:
        if not on_path(task, hist + (ev,)):
          continue
        out, s2 = step(s, ev)
        rout, r2 = ref_step(r, ev)
        acc.transitions += 1
        h2 = hist + (ev,)
        check(h2, s, ev, out, s2, r, rout, r2)
        k = canon(s2, r2)
        if k in seen:
          acc.outcome("merged_states")
          continue
        if len(seen) >= max_states:
          acc.caps.append("max_states=%d" % max_states)
          return nxt
        seen.add(k)
        acc.states += 1
        nxt.append((s2, r2, h2))
    frontier = nxt
  return frontier
