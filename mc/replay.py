"""Conformance replay: every path of the TLC state graph of RefreshProtocol is
driven through the real optimizer; after each step the abstraction of the real
transition must equal the model's successor state.  A divergence is a
violation of the property that the diverging observable belongs to.
"""
import numpy as np

from mc.lib import leaves_equal_bitwise, maxabs


def _raw_leaves(tree):
  import jax
  return [np.asarray(x) for x in jax.tree_util.tree_leaves(tree)]


def _same(a, b):
  return len(a) == len(b) and all(leaves_equal_bitwise(x, y)
                                  for x, y in zip(a, b))


# ---------------------------------------------------------------------------
# Distributed Shampoo
# ---------------------------------------------------------------------------
class DSReplayer:
  """mode in rep / quant / sharded; cfg: extra options (threshold, eps...)."""

  def __init__(self, node0, shapes, extra_cfg, tabs_spec, events):
    from mc import ds
    from mc.ref import shampoo as ref
    S, P, start = node0["S"], node0["P"], node0["start"]
    self.mode = node0["mode"]
    cfg = dict(statistics_compute_steps=S, preconditioning_compute_steps=P,
               start_preconditioning_step=start,
               best_effort_shape_interpretation=False)
    cfg.update(extra_cfg)
    if node0["sched"]:
      cfg.update(tabs_spec[str(node0["sched"])])
    self.cfg = cfg
    self.quant = self.mode == "quant"
    if self.quant:
      # momentum buffers are int8 in this mode (0.4% of a column per step);
      # without momentum the emitted update does not depend on them
      cfg["beta1"] = 0.0
    run_cfg = dict(cfg)
    if self.quant:
      run_cfg["best_effort_memory_usage_reduction"] = True
    rmode = {"rep": "rep", "quant": "pmap", "sharded": "sharded"}[self.mode]
    # the quantized pmap mode runs over two devices (3 statistics padded to
    # 4 work items, two per device)
    nd = 2 if self.quant and extra_cfg.get("_quant_devices", 1) == 2 else 1
    run_cfg.pop("_quant_devices", None)
    cfg.pop("_quant_devices", None)
    self.runner = ds.Runner(run_cfg, shapes, rmode, ndev=nd)
    gcfg = dict(run_cfg, start_preconditioning_step=10**6)
    self.graft_runner = ds.Runner(gcfg, shapes, rmode, ndev=nd)
    self.shapes = shapes
    self.ref0 = ref.RefShampoo(cfg, self.runner.params_np,
                               "sharded" if self.mode == "sharded" else "rep")
    self.full = dict(ref.BASE, **cfg)
    names = ["gA", "gB", "g0", "nan", "inf", "huge", "tiny", "ovf"]
    self.alpha = ds.grad_trees(shapes, names, (0, self.full["block_size"]))
    self.pre_leaves = [n for n, lf in self.ref0.leaves.items() if not lf.skip]

  def init(self):
    s0 = self.runner.init()
    return {"s": s0, "g": self.graft_runner.init(),
            "r": self.ref0.copy(), "tainted": False,
            "stats_at_refresh": None}

  def grad(self, ev, t):
    if ev == "ok":
      return self.alpha["gA" if t % 2 == 0 else "gB"]
    if ev == "zero":
      return self.alpha["g0"]
    return self.alpha[ev]

  def observe(self, state):
    """(stats_raw, precs_raw, metrics_raw) lists over preconditioned leaves."""
    st, pr, me = [], [], []
    for n in self.pre_leaves:
      ls = self.runner.leaf_stats(state, n)
      if self.mode == "sharded":
        st += ls["statistics"]
        pr += ls["preconditioners"]
      else:
        for x in ls["raw_statistics"]:
          st += x
        for x in ls["raw_preconditioners"]:
          pr += x
      me += _raw_leaves(self.runner.host(ls["metrics"]))
    return st, pr, me

  def step(self, acc, st, m, m2, hist, sigbase, case):
    """Advance one edge m -> m2. Returns new replay state."""
    ev = m2["ev"]
    t = m["count"]
    g = self.grad(ev, t)
    r = self.runner
    u, s2 = r.step(st["s"], g)
    gu, g2 = self.graft_runner.step(st["g"], g)
    u, gu = r.host(u), r.host(gu)
    o1, o2 = self.observe(st["s"]), self.observe(s2)
    tainted = st["tainted"] or ev in ("nan", "inf", "ovf")

    def viol(kind, what):
      acc.outcome("viol_%s/%s" % (kind, self.mode))
      acc.violation("%s|%s|%s" % (sigbase, ",".join(hist), kind), what,
                    dict(case, history=list(hist), kind=kind))

    # 1. step counter
    if r.count(s2) != m2["count"]:
      viol("count", "count %d after the step, model says %d" %
           (r.count(s2), m2["count"]))
    # 2. statistics cadence
    same_stats = _same(o1[0], o2[0])
    if m2["sv"] == m["sv"] and not same_stats:
      viol("stats_changed_off_schedule", "statistics changed on step %d "
           "which is not a multiple of the statistics interval %d" %
           (t, m["S"]))
    elif m2["sv"] != m["sv"] and same_stats and not m2["poisoned"] and \
        ev != "zero":
      viol("stats_not_updated", "statistics unchanged on step %d, a "
           "multiple of the statistics interval %d" % (t, m["S"]))
    else:
      acc.outcome("stats_step" if m2["sv"] != m["sv"] else "stats_kept")
    # 3. preconditioner cadence / gate
    same_precs = _same(o1[1], o2[1])
    if m2["pv"] == m["pv"] and not same_precs:
      why = ("statistics are poisoned (root must be rejected)"
             if m2["poisoned"] else "not a refresh step or same statistics")
      viol("precond_changed", "stored preconditioner changed on step %d "
           "although the model keeps it (%s)" % (t, why))
    elif m2["pv"] != m["pv"] and same_precs and (
        st["stats_at_refresh"] is None or
        not _same(o2[0], st["stats_at_refresh"])):
      # (a refresh from statistics whose bytes did not change since the last
      # refresh legitimately reproduces the same preconditioner)
      viol("precond_not_refreshed", "preconditioner not refreshed on step "
           "%d (interval %s)" % (t, m["P"]))
    else:
      acc.outcome("precond_refreshed" if m2["pv"] != m["pv"]
                  else "precond_kept")
    # stored preconditioners must stay finite whatever happened
    for x in o2[1]:
      if not np.all(np.isfinite(x.astype(np.float64))):
        viol("precond_nonfinite", "stored preconditioner contains a "
             "non-finite value after step %d" % t)
        break
    # 4. diagnostics cadence
    if m2["mv"] == m["mv"] and not _same(o1[2], o2[2]):
      viol("metrics_changed", "diagnostics changed on non-refresh step %d"
           % t)
    # 5. values: reference in lock-step (statistics stage check + update)
    ref = st["r"].copy()
    if not tainted:
      obs = r.obs(s2)
      want = ref.step(g, obs)
      for (nm, k, dev) in ref.stat_dev:
        if not dev <= 2e-6 and not self.quant:
          viol("stat_value", "statistic %d of %s differs from the documented "
               "accumulation: rel dev %.3g" % (k, nm, dev))
          break
        if self.quant and not dev <= 1e-4:
          viol("stat_value", "quantized statistic %d of %s: rel dev %.3g" %
               (k, nm, dev))
          break
      # refreshed preconditioner reflects the statistics current at this step
      if m2["pv"] != m["pv"]:
        for n in self.pre_leaves:
          ls = r.leaf_stats(s2, n)
          lf = ref.leaves[n]
          for k, p_impl in enumerate(ls["preconditioners"]):
            p_ref = lf.precs[k]
            tol = 2e-3 if self.quant else 2e-4
            if maxabs(np.asarray(p_impl, np.float64) - p_ref) > \
                tol * maxabs(p_ref):
              viol("precond_value", "refreshed preconditioner %d of %s is "
                   "not the root of the statistics current at step %d (rel "
                   "%.3g)" % (k, n, t, maxabs(np.asarray(p_impl, np.float64)
                                              - p_ref) / maxabs(p_ref)))
              break
      for n in self.shapes:
        a = np.asarray(u[n], np.float64)
        gr = np.asarray(gu[n], np.float64)
        b = want[n]
        sc = max(maxabs(b), 1e-30)
        if m2["used"] == "graft":
          if maxabs(a - gr) > 1e-6 * max(maxabs(gr), 1e-30):
            viol("warmup_not_graft", "update of %s on warm-up step %d (start "
                 "%d) differs from the grafting optimizer's momentum update "
                 "(rel %.3g)" % (n, t, m["start"], maxabs(a - gr) /
                                 max(maxabs(gr), 1e-30)))
          elif not self.quant and maxabs(a - b) > 2e-4 * sc:
            # the graft-only run goes through the same code; the documented
            # formula (graft step, weight decay, momentum) is independent
            viol("warmup_not_graft", "update of %s on warm-up step %d (start "
                 "%d) differs from the documented grafting update with "
                 "weight decay and momentum (rel %.3g)" %
                 (n, t, m["start"], maxabs(a - b) / sc))
          else:
            acc.outcome("warmup_ok")
        else:
          tol = 3e-3 if self.quant else 2e-4
          if maxabs(a - b) > tol * sc:
            viol("update_value", "update of %s on step %d does not use the "
                 "%s preconditioner (rel err %.3g vs reference)" %
                 (n, t, "previous" if self.mode == "sharded" else "stored",
                  maxabs(a - b) / sc))
          else:
            acc.outcome("precond_update_ok")
          if n in self.pre_leaves and m2["usedpv"] >= 0 and \
              maxabs(b - gr) > 1e-2 * sc and \
              maxabs(a - gr) <= 1e-6 * max(maxabs(gr), 1e-30):
            viol("still_graft", "update of %s on step %d >= start is still "
                 "the grafting update" % (n, t))
    else:
      acc.outcome("tainted_step")
      # keep the reference aligned on versions only
      ref.count += 1
    return {"s": s2, "g": g2, "r": ref, "tainted": tainted,
            "stats_at_refresh": o2[0] if m2["mv"] != m["mv"]
            else st["stats_at_refresh"]}


# ---------------------------------------------------------------------------
# Tearfree (Shampoo / Sketchy): cadence + warm-up boundary
# ---------------------------------------------------------------------------
class TFReplayer:

  def __init__(self, node0, shapes, extra):
    import jax
    from mc import grads as G
    from precondition.tearfree import optimizer as tf
    from precondition.tearfree import grafting, momentum, second_order
    from precondition.tearfree import shampoo, sketchy
    self.kind = node0["mode"]
    S, P, start = node0["S"], node0["P"], node0["start"]

    def make(start_):
      go = grafting.Options(
          grafting_type=grafting.GraftingType.RMSPROP,
          second_moment_decay=0.5, start_preconditioning_step=start_,
          epsilon=1e-10, skip_preconditioning_rank1=True)
      if self.kind == "tf_shampoo":
        so = second_order.Options(
            merge_dims=extra.get("merge_dims", 2),
            second_order_type=second_order.SecondOrderType.SHAMPOO,
            shampoo_options=shampoo.Options(
                block_size=extra.get("block_size", 2),
                update_preconditioners_freq=P, update_statistics_freq=S,
                second_moment_decay=0.5))
      else:
        so = second_order.Options(
            merge_dims=extra.get("merge_dims", 2),
            second_order_type=second_order.SecondOrderType.SKETCHY,
            shampoo_options=None,
            sketchy_options=sketchy.Options(
                rank=extra.get("rank", 2), update_freq=S,
                second_moment_decay=0.5,
                ekfac_svd=extra.get("ekfac_svd", False)))
      mo = momentum.Options(momentum_decay=0.0, weight_decay=0.0)
      return tf.tearfree(0.5, tf.TearfreeOptions(go, so, mo))

    self.opt = make(start)
    self.opt_graft = make(10**6)
    self.opt_pre = make(0)
    self.shapes = shapes
    self.params = {k: jax.numpy.asarray(G.dyadic(tuple(v), "P" + k))
                   for k, v in shapes.items()}
    self.alpha = G.tree_alphabet({k: tuple(v) for k, v in shapes.items()},
                                 ["gA", "gB", "g0"])
    self.upd = jax.jit(self.opt.update)
    self.upd_g = jax.jit(self.opt_graft.update)
    self.upd_p = jax.jit(self.opt_pre.update)

  def init(self):
    return {"s": self.opt.init(self.params),
            "g": self.opt_graft.init(self.params),
            "p": self.opt_pre.init(self.params), "stats_at_refresh": None}

  def _so_state(self, s):
    graft_state = s[0]
    return graft_state.direction[1], graft_state

  def observe(self, s):
    so, gs = self._so_state(s)
    import jax
    if self.kind == "tf_shampoo":
      is_blk = lambda x: hasattr(x, "stats") and hasattr(x, "roots")
      blocks = jax.tree_util.tree_leaves(so.blocks, is_leaf=is_blk)
      st = [np.asarray(a) for b in blocks if is_blk(b) for a in b.stats]
      pr = [np.asarray(a) for b in blocks if is_blk(b) for a in b.roots]
    else:
      is_ax = lambda x: hasattr(x, "eigvecs") and hasattr(x, "inv_tail")
      axes = [a for a in jax.tree_util.tree_leaves(so.sketches, is_leaf=is_ax)
              if is_ax(a)]
      st = [np.asarray(x) for a in axes for x in (a.eigvecs, a.eigvals,
                                                  a.tail)]
      pr = [np.asarray(x) for a in axes for x in (a.inv_eigvals, a.inv_tail)]
    return st, pr, int(so.count), int(gs.count)

  def step(self, acc, st, m, m2, hist, sigbase, case):
    import jax.numpy as jnp
    ev, t = m2["ev"], m["count"]
    name = "g0" if ev == "zero" else ("gA" if t % 2 == 0 else "gB")
    g = {k: jnp.asarray(v) for k, v in self.alpha[name].items()}
    u, s2 = self.upd(g, st["s"], self.params)
    ug, g2 = self.upd_g(g, st["g"], self.params)
    up, p2 = self.upd_p(g, st["p"], self.params)
    o1, o2 = self.observe(st["s"]), self.observe(s2)

    def viol(kind, what):
      acc.outcome("viol_" + kind)
      acc.violation("%s|%s|%s" % (sigbase, ",".join(hist), kind), what,
                    dict(case, history=list(hist), kind=kind))

    if o2[2] != m2["count"] or o2[3] != m2["count"]:
      viol("count", "tearfree counters (%d, %d) != %d" %
           (o2[2], o2[3], m2["count"]))
    same_stats = _same(o1[0], o2[0])
    if m2["sv"] == m["sv"] and not same_stats:
      viol("stats_changed_off_schedule", "tearfree statistics changed on "
           "step %d (interval %d)" % (t, m["S"]))
    elif m2["sv"] != m["sv"] and same_stats and ev != "zero":
      viol("stats_not_updated", "tearfree statistics unchanged on step %d "
           "(interval %d)" % (t, m["S"]))
    else:
      acc.outcome("stats_step" if m2["sv"] != m["sv"] else "stats_kept")
    same_precs = _same(o1[1], o2[1])
    if m2["pv"] == m["pv"] and not same_precs:
      viol("precond_changed", "tearfree preconditioner changed on step %d "
           "(interval %d)" % (t, m["P"]))
    elif m2["pv"] != m["pv"] and same_precs and (
        st["stats_at_refresh"] is None or
        not _same(o2[0], st["stats_at_refresh"])) and \
        any(np.any(x != 0) for x in o2[0]):
      # identical or all-zero statistics legitimately reproduce the same
      # roots; anything else must show up in the stored bytes
      viol("precond_not_refreshed", "tearfree preconditioner not refreshed "
           "on step %d (interval %d)" % (t, m["P"]))
    else:
      acc.outcome("precond_refreshed" if m2["pv"] != m["pv"]
                  else "precond_kept")
    for n in self.shapes:
      a = np.asarray(u[n], np.float64)
      gr = np.asarray(ug[n], np.float64)
      pr = np.asarray(up[n], np.float64)
      if m2["used"] == "graft":
        if maxabs(a - gr) > 1e-6 * max(maxabs(gr), 1e-30):
          viol("warmup_not_graft", "tearfree update of %s on warm-up step "
               "%d (start %d) is not the grafting update" %
               (n, t, m["start"]))
        else:
          acc.outcome("warmup_ok")
      else:
        if maxabs(a - pr) > 1e-5 * max(maxabs(pr), 1e-30):
          viol("update_value", "tearfree update of %s on step %d >= start "
               "%d is not the preconditioned update" % (n, t, m["start"]))
        else:
          acc.outcome("precond_update_ok")
    return {"s": s2, "g": g2, "p": p2,
            "stats_at_refresh": o2[0] if m2["mv"] != m["mv"]
            else st["stats_at_refresh"]}


def replay_all_paths(acc, sub, replayer, sigbase, case):
  """DFS over every path of the model graph from sub['init']."""
  nodes, edges = sub["nodes"], sub["edges"]
  stack = [(sub["init"], replayer.init(), ())]
  visited_nodes = set()
  while stack:
    nid, st, hist = stack.pop()
    visited_nodes.add(nid)
    succ = edges.get(nid, [])
    if not succ:
      acc.traces += 1
      if len(acc.samples) < 2:
        acc.sample({"config": {k: nodes[sub["init"]][k] for k in
                               ("S", "P", "start", "mode", "sched")},
                    "path_events": list(hist),
                    "final_model_state": nodes[nid]})
      continue
    for b in succ:
      m, m2 = nodes[nid], nodes[b]
      h2 = hist + (m2["ev"],)
      st2 = replayer.step(acc, st, m, m2, h2, sigbase, case)
      acc.transitions += 1
      if m2["sv"] != m["sv"] or m2["pv"] != m["pv"]:
        acc.nontrivial += 1
      stack.append((b, st2, h2))
  acc.states += len(visited_nodes)
