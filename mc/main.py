"""Driver: ./check <Cxx> [--tier quick|thorough] [--replay FILE] [--jobs N].

Runs under /venv/bin/python.  For a property it asks mc.props.<cxx>.plan(tier,
seed) for a list of *tasks* (one per configuration / input class; every task
enumerates its own bounded space completely inside a worker process), runs
them on a pool of fresh worker processes, aggregates the counts the tasks
measured, confirms every violation in a second fresh worker, filters the
committed known findings, writes replays + evidence and sets the exit code.

exit 0: property held on everything explored (KNOWN-FINDING lines possible)
exit 1: at least one unlisted violation (VIOLATION property=.. replay=..)
exit 3: infrastructure error / nondeterminism (never a VIOLATION line)
"""
import argparse
import hashlib
import importlib
import json
import os
import queue
import subprocess
import sys
import threading
import time

ROOT = os.path.dirname(os.path.dirname(os.path.abspath(__file__)))
sys.path.insert(0, ROOT)

from mc import known as known_mod  # noqa: E402
from mc import evidence as evidence_mod  # noqa: E402

PY = "/venv/bin/python"


class Worker:
  """One worker process speaking JSON lines on stdin/stdout."""

  def __init__(self, profile):
    env = dict(os.environ)
    env["MC_PROFILE"] = json.dumps(profile)
    env["PYTHONHASHSEED"] = "0"
    env["PYTHONPATH"] = ROOT + os.pathsep + env.get("PYTHONPATH", "")
    self.proc = subprocess.Popen(
        [PY, "-u", os.path.join(ROOT, "mc", "worker.py")],
        stdin=subprocess.PIPE, stdout=subprocess.PIPE,
        stderr=subprocess.PIPE, env=env, text=True, bufsize=1)
    self.err_lines = []
    self._t = threading.Thread(target=self._drain, daemon=True)
    self._t.start()

  def _drain(self):
    for line in self.proc.stderr:
      self.err_lines.append(line)
      if len(self.err_lines) > 400:
        del self.err_lines[:200]

  def call(self, msg, timeout):
    self.proc.stdin.write(json.dumps(msg) + "\n")
    self.proc.stdin.flush()
    out = {}

    def rd():
      out["line"] = self.proc.stdout.readline()

    t = threading.Thread(target=rd, daemon=True)
    t.start()
    t.join(timeout)
    if t.is_alive():
      self.kill()
      return {"infra_error": "timeout after %ss" % timeout}
    line = out.get("line", "")
    if not line:
      return {"infra_error": "worker died: " + "".join(self.err_lines[-30:])}
    return json.loads(line)

  def kill(self):
    try:
      self.proc.kill()
    except Exception:  # pylint: disable=broad-except
      pass

  def close(self):
    try:
      self.proc.stdin.close()
      self.proc.wait(timeout=10)
    except Exception:  # pylint: disable=broad-except
      self.kill()


def run_tasks(prop, tasks, jobs, default_timeout, progress=True,
              fresh=False):
  """Run tasks on per-profile worker pools. Returns results in task order."""
  results = [None] * len(tasks)
  by_profile = {}
  for i, t in enumerate(tasks):
    key = json.dumps(t.get("profile", {}), sort_keys=True)
    by_profile.setdefault(key, []).append(i)
  done = [0]
  lock = threading.Lock()
  t0 = time.time()

  # one queue per profile; workers are assigned proportionally
  total = len(tasks)
  plan = []
  for key, idxs in by_profile.items():
    n = max(1, min(len(idxs), int(round(jobs * len(idxs) / max(1, total)))))
    plan.append((key, idxs, n))
  # never exceed jobs overall, but keep at least one per profile
  while sum(p[2] for p in plan) > max(jobs, len(plan)):
    k = max(range(len(plan)), key=lambda j: plan[j][2])
    plan[k] = (plan[k][0], plan[k][1], plan[k][2] - 1)

  threads = []
  for key, idxs, n in plan:
    q = queue.Queue()
    # heavy tasks first
    for i in sorted(idxs, key=lambda j: -tasks[j].get("weight", 1)):
      q.put(i)
    profile = json.loads(key)

    def loop(q=q, profile=profile):
      w = None
      while True:
        try:
          i = q.get_nowait()
        except queue.Empty:
          break
        if w is None:
          w = Worker(profile)
        res = w.call({"prop": prop, "task": tasks[i]},
                     tasks[i].get("timeout", default_timeout))
        if "infra_error" in res:
          w.kill()
          w = None
        results[i] = res
        if fresh and w is not None:
          # one task per process: hidden module-level state of the library
          # can then only come from what the task itself did
          w.close()
          w = None
        with lock:
          done[0] += 1
          if progress and (done[0] % 25 == 0 or done[0] == total):
            print("  [%s] %d/%d tasks  %.0fs" %
                  (prop, done[0], total, time.time() - t0), flush=True)
      if w is not None:
        w.close()

    for _ in range(n):
      th = threading.Thread(target=loop, daemon=True)
      th.start()
      threads.append(th)
  for th in threads:
    th.join()
  return results


def sha8(obj):
  return hashlib.sha256(
      json.dumps(obj, sort_keys=True, default=str).encode()).hexdigest()[:8]


def main():
  ap = argparse.ArgumentParser()
  ap.add_argument("prop")
  ap.add_argument("--tier", default=os.environ.get("VERIF_TIER", "quick"))
  ap.add_argument("--replay")
  ap.add_argument("--jobs", type=int,
                  default=int(os.environ.get("VERIF_JOBS", "16")))
  ap.add_argument("--only", help="substring filter on task names (debug)")
  ap.add_argument("--no-evidence", action="store_true")
  args = ap.parse_args()
  prop = args.prop.upper()
  seed = int(os.environ.get("VERIF_SEED", "0"))
  tier = args.tier
  mod = importlib.import_module("mc.props." + prop.lower())
  t0 = time.time()

  if args.replay:
    rep = json.load(open(args.replay))
    rtask = dict(rep["task"])
    hist = (rep.get("violation", {}).get("case") or {}).get("history")
    if isinstance(hist, list) and hist and "sub" not in rtask:
      # replay only the recorded history (and its prefixes), not the whole
      # configuration: the plain unit-test form of the counterexample
      rtask["only_history"] = [h for h in hist if not str(h).startswith("ax")]
      rtask["depth"] = max(len(rtask["only_history"]), 1)
    res = run_tasks(prop, [rtask], 1, 3600, progress=False)[0]
    if "infra_error" in res:
      print("INFRA-ERROR", res["infra_error"])
      sys.exit(3)
    vs = res.get("violations", [])
    want = rep.get("violation", {}).get("sig")
    hit = [v for v in vs if want is None or v.get("sig") == want]
    if hit:
      print(json.dumps(hit[0], indent=1, default=str)[:4000])
      print("VIOLATION property=%s replay=%s" % (prop, args.replay))
      sys.exit(1)
    print("replay: no violation (states=%s transitions=%s)" %
          (res.get("states"), res.get("transitions")))
    sys.exit(0)

  plan = mod.plan(tier, seed)
  tasks = plan["tasks"]
  if args.only:
    tasks = [t for t in tasks if args.only in t.get("name", "")]
  print("[%s] tier=%s seed=%d tasks=%d repo=%s" %
        (prop, tier, seed, len(tasks),
         os.environ.get("VERIF_REPO", "/repo")), flush=True)
  results = run_tasks(prop, tasks, args.jobs, plan.get("timeout", 1800),
                      fresh=bool(plan.get("fresh_worker_per_task")))

  infra = [(t, r) for t, r in zip(tasks, results) if "infra_error" in r]
  if infra:
    # a worker that died or timed out decides nothing; violations found by the
    # other tasks are still reported (exit 1), otherwise the run exits 3
    for t, r in infra[:5]:
      print("INFRA-ERROR task=%s: %s" % (t.get("name"), r["infra_error"][-3000:]))
    keep = [(t, r) for t, r in zip(tasks, results) if "infra_error" not in r]
    tasks = [t for t, _ in keep]
    results = [r for _, r in keep]
    if not tasks:
      sys.exit(3)

  agg = evidence_mod.aggregate(prop, tier, seed, tasks, results, plan)

  # --- violations: confirm, filter known, write replays -------------------
  known = known_mod.load(prop)
  raw = []
  for t, r in zip(tasks, results):
    for v in r.get("violations", []):
      raw.append((t, v))
  by_sig = {}
  for t, v in raw:
    by_sig.setdefault(v["sig"], (t, v))
  new_v, known_hits = [], {}
  for sig, (t, v) in by_sig.items():
    k = known_mod.match(known, v)
    if k is not None:
      known_hits.setdefault(k["id"], [k, 0])
      known_hits[k["id"]][1] += 1
    else:
      new_v.append((t, v))

  nondeterministic = 0
  confirmed = []
  # confirm the first few distinct violations in fresh workers (in parallel);
  # the same case must fail again or it is reported as nondeterminism
  NCONF = 6
  conf = [(v.get("replay_task", t), v) for t, v in new_v[:NCONF]]
  uniq, order = {}, []
  for rt, v in conf:
    key = json.dumps(rt, sort_keys=True, default=str)
    if key not in uniq:
      uniq[key] = rt
      order.append(key)
  res2 = run_tasks(prop, [uniq[k] for k in order], args.jobs, 3600,
                   progress=False) if order else []
  sigs_by_key = {}
  for k, r in zip(order, res2):
    sigs_by_key[k] = None if "infra_error" in r else \
        {x["sig"] for x in r.get("violations", [])}
  for rt, v in conf:
    key = json.dumps(rt, sort_keys=True, default=str)
    sigs2 = sigs_by_key[key]
    if sigs2 is None or v["sig"] not in sigs2:
      nondeterministic += 1
      print("NONDETERMINISM property=%s sig=%s (not reproduced in a fresh "
            "worker)" % (prop, v["sig"]))
      continue
    confirmed.append((rt, v))
  for t, v in new_v[NCONF:]:
    confirmed.append((v.get("replay_task", t), v))

  os.makedirs(os.path.join(ROOT, "replays"), exist_ok=True)
  if len(confirmed) > 8:
    print("  (%d distinct violating cases; replays written for the first 8)"
          % len(confirmed))
  for rt, v in confirmed[:8]:
    path = os.path.join(ROOT, "replays", "%s-%s.json" % (prop, sha8(v["sig"])))
    v = dict(v)
    v.pop("replay_task", None)
    with open(path, "w") as f:
      json.dump({"property": prop, "task": rt, "violation": v,
                 "seed": seed, "tier": tier}, f, indent=1, default=str)
    print("  detail: %s" % json.dumps(v, default=str)[:600])
    print("VIOLATION property=%s replay=%s" % (prop, path))
  for kid, (k, n) in sorted(known_hits.items()):
    print("KNOWN-FINDING: property=%s %s [%s; %d distinct failing cases]" %
          (prop, k["what"], kid, n))

  agg["violations"] = len(confirmed)
  agg["coverage"]["known_finding_cases"] = sum(n for _, n in known_hits.values())
  agg["wall_s"] = round(time.time() - t0, 2)
  if not args.no_evidence and not args.only and not infra and \
      not os.environ.get("VERIF_REPO"):
    evidence_mod.write(prop, agg)
  try:
    os.makedirs(os.path.join(ROOT, "scratch"), exist_ok=True)
    with open(os.path.join(ROOT, "scratch", "last_%s.json" % prop), "w") as f:
      json.dump(agg, f, indent=1, default=str)
  except OSError:
    pass
  c = agg["coverage"]
  print("[%s] states=%d transitions=%d evaluations=%d distinct_nontrivial=%d "
        "outcomes=%s exhaustive=%s inconclusive=%d wall=%.1fs" %
        (prop, c["states"], c["transitions"], c["evaluations"],
         c["distinct_nontrivial"], json.dumps(c.get("outcomes", {}))[:300],
         c["exhaustive"], c.get("inconclusive", 0), agg["wall_s"]))
  if confirmed:
    sys.exit(1)
  sys.exit(3 if (nondeterministic or infra) else 0)


if __name__ == "__main__":
  main()
