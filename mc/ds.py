"""Harness around the real distributed_shampoo (worker side).

Runner(cfg, shapes, mode): mode 'rep' (jit, no batch axis), 'pmap'
(batch_axis_name='batch' under jax.pmap over D forced host devices),
'sharded' (shard_optimizer_states=True, jit under a Mesh of M devices).
"""
import numpy as np

from mc import grads as G
from mc.ref import shampoo as ref


def make_params(shapes):
  return {k: np.asarray(G.dyadic(tuple(s), "P" + k)) for k, s in
          shapes.items()}


def build_opt(cfg, mode="rep", ndev_pjit=1):
  import jax
  from jax.sharding import PartitionSpec as P
  from precondition import distributed_shampoo as ds
  kw = dict(ref.BASE)
  kw.update(cfg)
  lr = kw.pop("learning_rate")
  if isinstance(lr, dict):
    f = ref.lr_fn(lr)
    spec = lr
    import jax.numpy as jnp
    if spec["sched"] == "lin":
      a, T, m = spec.get("a", 0.25), spec.get("T", 8), spec.get("m", 0.125)
      lrf = lambda t: a * jnp.maximum(1.0 - t / T, m)
    else:
      a, k = spec.get("a", 0.25), spec.get("k", 2)
      lrf = lambda t: a * 0.5 ** (t // k)
    lr = lrf
    del f
  kw["graft_type"] = ds.GraftingType(kw["graft_type"])
  kw["precondtioner_type"] = ds.PreconditionerType(kw["precondtioner_type"])
  block_size = kw.pop("block_size")
  if mode == "pmap":
    kw["batch_axis_name"] = "batch"
  if mode == "sharded":
    kw.update(shard_optimizer_states=True, statistics_partition_spec=P("x"),
              preconditioner_partition_spec=P("x"),
              num_devices_for_pjit=ndev_pjit)
  return ds.distributed_shampoo(lr, block_size, **kw)


class Runner:

  def __init__(self, cfg, shapes, mode="rep", ndev=1, ndev_pjit=None,
               mesh=1, params=None, jit=True):
    import jax
    import jax.numpy as jnp
    self.cfg, self.mode, self.ndev = cfg, mode, ndev
    self.shapes = {k: tuple(v) for k, v in shapes.items()}
    self.params_np = params if params is not None else make_params(shapes)
    self.params = {k: jnp.asarray(v) for k, v in self.params_np.items()}
    self.opt = build_opt(cfg, mode, ndev_pjit or 1)
    self.mesh = None
    if mode == "rep":
      # jit=False: op-by-op execution, the way a debugging or notebook user
      # steps the transformation (Python code of update runs on every call)
      self._upd = jax.jit(self.opt.update) if jit else self.opt.update
    elif mode == "pmap":
      self.devices = jax.devices()[:ndev]
      self._upd = jax.pmap(self.opt.update, axis_name="batch",
                           devices=self.devices)
      self.params_rep = self.replicate(self.params)
    else:
      from jax.sharding import Mesh
      self.mesh = Mesh(np.array(jax.devices()[:mesh]), ("x",))
      self._upd = jax.jit(self.opt.update)

  def replicate(self, tree):
    import jax
    import jax.numpy as jnp
    n = self.ndev
    return jax.tree_util.tree_map(
        lambda x: jnp.stack([jnp.asarray(x)] * n), tree)

  def init(self):
    import jax
    if self.mode == "rep":
      return self.opt.init(self.params)
    if self.mode == "pmap":
      return self.replicate(self.opt.init(self.params))
    fns = self.opt.init(None)
    self.init_fns = fns
    return fns.init_fn(self.params)

  def step(self, state, grads):
    """grads: {leaf: np array}. Returns (updates, new_state)."""
    import jax
    import jax.numpy as jnp
    g = {k: jnp.asarray(v) for k, v in grads.items()}
    if self.mode == "rep":
      return self._upd(g, state, self.params)
    if self.mode == "pmap":
      g = self.replicate(g)
      return self._upd(g, state, self.params_rep)
    with self.mesh:
      return self._upd(g, state, self.params)

  # ---- observers -----------------------------------------------------
  def host(self, tree, dev=0):
    """Device-0 slice (pmap) as numpy leaves."""
    import jax
    if self.mode == "pmap":
      return jax.tree_util.tree_map(lambda x: np.asarray(x)[dev], tree)
    return jax.tree_util.tree_map(np.asarray, tree)

  def count(self, state):
    c = np.asarray(state.count)
    return int(c.reshape(-1)[0])

  def leaf_stats(self, state, name, dev=0):
    """Returns dict(statistics=[..], preconditioners=[..], metrics=...)"""
    from precondition import distributed_shampoo as ds
    if self.mode == "sharded":
      g = state.stats.global_stats
      loc = state.stats.local_stats[name]
      i0 = int(loc.index_start)
      n = len(loc.sizes)
      cr = dict(ref.BASE, **self.cfg).get("compression_rank", 0)
      stats, precs = [], []
      for i, size in enumerate(loc.sizes):
        stats.append(np.asarray(g.statistics[i0 + i][:size, :size]))
        pd = ds._precond_dim(cr, size)
        precs.append(np.asarray(g.preconditioners[i0 + i][:size, :pd]))
      return {"statistics": stats, "preconditioners": precs,
              "metrics": loc.training_metrics, "n": n,
              "raw_preconditioners": precs}
    ps = state.stats[name]
    f = (lambda x: np.asarray(x)[dev]) if self.mode == "pmap" else np.asarray

    def deq(q):
      from precondition.quantization_utils import QuantizedValue
      if isinstance(q, QuantizedValue):
        import jax
        qq = jax.tree_util.tree_map(f, q)
        return np.asarray(qq.to_float())
      return f(q)

    def raw(q):
      import jax
      return [f(x) for x in jax.tree_util.tree_leaves(q)]

    return {"statistics": [deq(s) for s in ps.statistics],
            "preconditioners": [deq(p) for p in ps.preconditioners],
            "raw_preconditioners": [raw(p) for p in ps.preconditioners],
            "raw_statistics": [raw(p) for p in ps.statistics],
            "metrics": ps.training_metrics, "n": len(ps.statistics)}

  def obs(self, state, dev=0):
    """Reported per-statistic diagnostics {leaf: {err,max_ev,retries}}."""
    out = {}
    for name in self.shapes:
      ls = self.leaf_stats(state, name, dev)
      m = ls["metrics"]
      if ls["n"] == 0 or not hasattr(m, "inverse_pth_root_errors"):
        out[name] = {"err": np.zeros(0), "max_ev": np.zeros(0),
                     "retries": np.zeros(0), "stats": ls["statistics"]}
        continue
      f = (lambda x: np.asarray(x)[dev]) if self.mode == "pmap" \
          else np.asarray
      out[name] = {"err": f(m.inverse_pth_root_errors).astype(np.float64),
                   "max_ev": f(m.max_eigen_value).astype(np.float64),
                   "retries": f(m.total_retries).astype(np.float64),
                   "stats": ls["statistics"]}
    return out


def grad_trees(shapes, names, block_sizes=(0,), seed=0):
  return G.tree_alphabet({k: tuple(v) for k, v in shapes.items()}, names,
                         block_sizes, seed)
