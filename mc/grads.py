"""Gradient alphabets (shared).  All core patterns are seed independent.

Entries are multiples of 1/4 with magnitude <= 2 (dyadic), so float32
second-moment statistics, SM3/AdaGrad accumulators and EMA weights with dyadic
decay are exact.
"""
import itertools

import numpy as np


def _unfold_ranks_ok(g, block_sizes):
  """Every mode unfolding of every aligned block has full rank."""
  shape = g.shape
  if g.ndim == 0:
    return g != 0
  for bs in block_sizes:
    ranges = []
    for d in shape:
      if bs and 0 < bs < d:
        ranges.append([(a, min(a + bs, d)) for a in range(0, d, bs)])
      else:
        ranges.append([(0, d)])
    for combo in itertools.product(*ranges):
      blk = g[tuple(slice(a, b) for a, b in combo)]
      for ax in range(blk.ndim):
        m = np.moveaxis(blk, ax, 0).reshape(blk.shape[ax], -1)
        want = min(m.shape)
        if np.linalg.matrix_rank(m.astype(np.float64)) < want:
          return False
  return True


def dyadic(shape, salt, block_sizes=(0,), seed=0, nonparallel_to=()):
  """Deterministic dyadic full-rank pattern for `shape`."""
  shape = tuple(shape)
  for attempt in range(2000):
    rs = np.random.RandomState(
        (_stable_hash((shape, salt, seed)) + attempt) % (2**31 - 1))
    vals = rs.randint(1, 9, size=shape) * rs.choice([-1, 1], size=shape)
    g = np.asarray(vals / 4.0, dtype=np.float32)
    if not _unfold_ranks_ok(g, block_sizes):
      continue
    ok = True
    for o in nonparallel_to:
      if g.size > 1:
        c = abs(float(np.vdot(g, o))) / (np.linalg.norm(g) *
                                         np.linalg.norm(o) + 1e-30)
        if c > 0.9:
          ok = False
    if ok:
      return g
  raise RuntimeError("no dyadic pattern for %s" % (shape,))


def _stable_hash(obj):
  import hashlib
  return int.from_bytes(
      hashlib.sha256(repr(obj).encode()).digest()[:4], "little")


def alphabet(shape, names, block_sizes=(0,), seed=0):
  """Returns {name: np.float32 array} for one leaf shape."""
  out = {}
  shape = tuple(shape)
  ga = dyadic(shape, "A", block_sizes)
  gb = dyadic(shape, "B", block_sizes, nonparallel_to=(ga,))
  for n in names:
    if n == "gA":
      out[n] = ga
    elif n == "gB":
      out[n] = gb
    elif n == "g0":
      out[n] = np.zeros(shape, np.float32)
    elif n == "gSeed":
      out[n] = dyadic(shape, "S", block_sizes, seed=seed + 1)
    elif n == "gR":  # rank one
      vecs = [((np.arange(d) * 3 + 1) % 5 - 2).astype(np.float32) / 2
              for d in shape]
      vecs = [np.where(v == 0, 0.5, v).astype(np.float32) for v in vecs]
      g = np.ones((), np.float32)
      for v in vecs:
        g = np.multiply.outer(g, v)
      out[n] = g.astype(np.float32)
    elif n == "gD":   # scale-disparate: trailing half of axis 0 times 2^-14
      g = ga.copy()
      if g.ndim >= 1 and g.shape[0] >= 2:
        g[g.shape[0] // 2:] *= np.float32(2.0**-14)
      out[n] = g
    elif n == "gRow0":   # only the first slice along axis 0 is non-zero
      g = np.zeros_like(ga)
      if g.ndim:
        g[0] = ga[0]
      else:
        g = ga.copy()
      out[n] = g
    elif n == "gRow1s":  # only the second slice, 2^-14 times smaller
      g = np.zeros_like(ga)
      if g.ndim and g.shape[0] > 1:
        g[1] = ga[1] * np.float32(2.0**-14)
      out[n] = g
    elif n == "gS+":
      out[n] = (ga * np.float32(2.0**20)).astype(np.float32)
    elif n == "gS-":
      out[n] = (ga * np.float32(2.0**-20)).astype(np.float32)
    elif n == "nan":
      g = ga.copy()
      g.flat[g.size // 2] = np.nan
      out[n] = g
    elif n == "inf":
      g = ga.copy()
      g.flat[g.size // 2] = np.inf
      out[n] = g
    elif n == "huge":
      out[n] = (ga * np.float32(2.0**40)).astype(np.float32)
    elif n == "tiny":
      out[n] = (ga * np.float32(2.0**-40)).astype(np.float32)
    elif n == "ovf":
      out[n] = (ga * np.float32(2.0**100)).astype(np.float32)
    else:
      raise KeyError(n)
  return out


def tree_alphabet(shapes, names, block_sizes=(0,), seed=0):
  """shapes: {leaf: shape}.  Returns {name: {leaf: array}}."""
  per_leaf = {k: alphabet(s, names, block_sizes, seed) for k, s in
              shapes.items()}
  # make leaves of equal shape differ (otherwise equal-shaped leaves would
  # have identical histories)
  out = {}
  for n in names:
    tree = {}
    for i, (k, s) in enumerate(sorted(shapes.items())):
      g = per_leaf[k][n]
      if n in ("gA", "gB", "gSeed") and i % 2 == 1:
        g = np.array(-g[::-1] if g.ndim else -g, dtype=g.dtype).reshape(
            g.shape)
      tree[k] = g
    out[n] = tree
  return out
