---------------------------- MODULE RefreshProtocol ----------------------------
(* Version-level model of the statistics / preconditioner refresh protocol of  *)
(* Distributed Shampoo (replicated, pmap-quantized, sharded) and of Tearfree    *)
(* Shampoo / Sketchy.  Values are abstracted to *versions*:                     *)
(*   sv  index of the step whose gradient last entered the statistics (-1 =    *)
(*       the initial statistics),                                               *)
(*   pv  statistics version the stored preconditioner reflects,                 *)
(*   mv  step at which the stored diagnostics were last written,                *)
(*   poisoned  the statistics contain a non-finite value,                       *)
(*   used / usedpv  what the emitted update was built from.                     *)
(* The constants S, P, start, mode, sched are chosen in Init, so a single TLC  *)
(* run explores the whole configuration grid.  The generated file              *)
(* RefreshProtocolMC.tla instantiates the grid and the tabulated schedules.     *)
EXTENDS Integers, Sequences

CONSTANTS T,        \* horizon (number of updates)
          SS, PP,   \* sets of statistics / preconditioner intervals
          STARTS,   \* set of start-preconditioning steps
          MODES,    \* subset of {"rep","quant","sharded","tf_shampoo","tf_sketchy"}
          SCHEDS,   \* set of schedule ids, 0 = fixed interval P
          EVENTS,   \* subset of {"ok", "zero", "nan"}
          MAXF,     \* at most MAXF "nan" events per history
          Tab       \* Tab[s][t+1] = scheduled interval at step t, schedule s

VARIABLES count, sv, pv, mv, poisoned, used, usedpv, nf, ev,
          S, P, start, mode, sched

vars == <<count, sv, pv, mv, poisoned, used, usedpv, nf, ev,
          S, P, start, mode, sched>>

Interval(t) == IF sched = 0 THEN P ELSE Tab[sched][t + 1]

Init == /\ count = 0 /\ sv = -1 /\ pv = -1 /\ mv = -1
        /\ poisoned = FALSE /\ used = "none" /\ usedpv = -1
        /\ nf = 0 /\ ev = "init"
        /\ S \in SS /\ P \in PP /\ start \in STARTS
        /\ mode \in MODES /\ sched \in SCHEDS
        /\ (sched # 0 => P = 1)   \* scheduled runs start from interval 1
        /\ (sched # 0 => mode \in {"rep", "quant", "sharded"})
        /\ (mode = "tf_sketchy" => S = P)   \* one frequency for both

Step(g) ==
  LET statsStep == (count % S) = 0
      refresh   == (count % Interval(count)) = 0
      sv2       == IF statsStep THEN count ELSE sv
      pois2     == poisoned \/ (statsStep /\ g = "nan")
      pv2       == IF refresh /\ ~pois2 THEN sv2 ELSE pv
  IN /\ count < T
     /\ (g = "nan" => nf < MAXF)
     /\ count' = count + 1
     /\ sv' = sv2
     /\ poisoned' = pois2
     /\ pv' = pv2
     /\ mv' = IF refresh THEN count ELSE mv
     /\ used' = IF count < start THEN "graft" ELSE "precond"
     /\ usedpv' = IF mode = "sharded" THEN pv ELSE pv2
     /\ nf' = IF g = "nan" THEN nf + 1 ELSE nf
     /\ ev' = g
     /\ UNCHANGED <<S, P, start, mode, sched>>

Next == \E g \in EVENTS : Step(g)

Spec == Init /\ [][Next]_vars

\* ---- model-level invariants (checked by TLC) ------------------------------
TypeOK == /\ count \in 0..T /\ sv \in -1..T /\ pv \in -1..T /\ mv \in -1..T
          /\ poisoned \in BOOLEAN /\ nf \in 0..MAXF

PvBehindSv == pv <= sv /\ usedpv <= sv
\* versions only ever name steps on which the respective interval fired
SvOnGrid == sv = -1 \/ (sv % S) = 0
MvOnGrid == mv = -1 \/ (mv % Interval(mv)) = 0
\* a preconditioner never reflects statistics at or after the poisoning step
Healthy  == poisoned => (\E k \in 0..T : TRUE)
CounterStep == [][count' = count + 1]_vars
================================================================================
