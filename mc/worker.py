"""Worker: fresh /venv/bin/python process; JSON lines in, JSON lines out.

The environment profile (x64 on/off, forced host device count, single
threaded XLA) is applied *before* jax is imported.  VERIF_REPO=<dir> puts a
scratch copy of the repository in front of the editable install of /repo.
"""
import importlib
import json
import os
import sys
import traceback

profile = json.loads(os.environ.get("MC_PROFILE", "{}"))
flags = ["--xla_cpu_multi_thread_eigen=false"]
if profile.get("devices", 1) > 1:
  flags.insert(0, "--xla_force_host_platform_device_count=%d" %
               profile["devices"])
os.environ["XLA_FLAGS"] = " ".join(flags)
os.environ["JAX_PLATFORMS"] = "cpu"
os.environ["JAX_ENABLE_X64"] = "1" if profile.get("x64") else "0"
# x64_late: the process starts without x64, the library is imported, and only
# then is jax_enable_x64 switched on (what a script that calls
# jax.config.update after its imports does)
X64_LATE = bool(profile.get("x64_late"))
if X64_LATE:
  os.environ["JAX_ENABLE_X64"] = "0"
os.environ.setdefault("OMP_NUM_THREADS", "1")
os.environ.setdefault("OPENBLAS_NUM_THREADS", "1")
os.environ.setdefault("TF_CPP_MIN_LOG_LEVEL", "3")
os.environ["PRECONDITION_VERIF"] = "1"

repo = os.environ.get("VERIF_REPO")
if repo:
  sys.path.insert(0, repo)

# protocol channel = original stdout; anything the library prints goes to
# stderr so it cannot corrupt the protocol.
proto = os.fdopen(os.dup(1), "w", buffering=1)
os.dup2(2, 1)
sys.stdout = sys.stderr

ROOT = os.path.dirname(os.path.dirname(os.path.abspath(__file__)))
if ROOT not in sys.path:
  sys.path.insert(0, ROOT)


def _default(o):
  try:
    import numpy as np
    if isinstance(o, np.integer):
      return int(o)
    if isinstance(o, np.floating):
      return float(o)
    if isinstance(o, np.ndarray):
      return o.tolist()
    if isinstance(o, np.bool_):
      return bool(o)
  except Exception:  # pylint: disable=broad-except
    pass
  return str(o)


def main():
  import logging
  logging.disable(logging.WARNING)
  if X64_LATE:
    import jax
    import precondition.distributed_shampoo  # pylint: disable=unused-import
    import precondition.sm3  # pylint: disable=unused-import
    import precondition.tearfree.optimizer  # pylint: disable=unused-import
    jax.config.update("jax_enable_x64", True)
    os.environ["JAX_ENABLE_X64"] = "1"   # what child processes inherit
  try:
    from absl import logging as alog
    alog.set_verbosity(alog.ERROR)
  except Exception:  # pylint: disable=broad-except
    pass
  for line in sys.stdin:
    line = line.strip()
    if not line:
      continue
    msg = json.loads(line)
    try:
      mod = importlib.import_module("mc.props." + msg["prop"].lower())
      res = mod.run_task(msg["task"])
    except Exception:  # pylint: disable=broad-except
      res = {"infra_error": "exception in harness:\n" + traceback.format_exc()}
    proto.write(json.dumps(res, default=_default) + "\n")
    proto.flush()


if __name__ == "__main__":
  main()
