"""Engine B: run TLC on RefreshProtocol, parse the dumped labelled state graph.

TLC is the model checker for the protocol model; the graph it dumps is then
replayed path by path against the implementation by the property modules.
"""
import os
import re
import shutil
import subprocess
import tempfile

HERE = os.path.dirname(os.path.abspath(__file__))


def _set(xs):
  return "{" + ", ".join(('"%s"' % x) if isinstance(x, str) else str(x)
                         for x in xs) + "}"


def run(T, SS, PP, STARTS, MODES, SCHEDS, EVENTS, MAXF, tabs):
  """tabs: {sched_id: [interval at t=0..T]}. Returns (graph, stats)."""
  d = tempfile.mkdtemp(prefix="tlc_", dir=os.environ.get("MC_SCRATCH",
                                                          "/tmp"))
  try:
    shutil.copy(os.path.join(HERE, "tla", "RefreshProtocol.tla"), d)
    nsched = max([0] + list(tabs))
    rows = []
    for s in range(1, nsched + 1):
      row = tabs.get(s, [1] * (T + 1))
      rows.append("<<" + ", ".join(str(int(v)) for v in row[:T + 1]) + ">>")
    tab = "<<" + ", ".join(rows) + ">>" if rows else "<< <<1>> >>"
    with open(os.path.join(d, "RefreshProtocolMC.tla"), "w") as f:
      f.write("---- MODULE RefreshProtocolMC ----\n"
              "EXTENDS RefreshProtocol\n"
              "TabC == %s\n====\n" % tab)
    with open(os.path.join(d, "RefreshProtocolMC.cfg"), "w") as f:
      f.write("CONSTANTS\n T = %d\n SS = %s\n PP = %s\n STARTS = %s\n"
              " MODES = %s\n SCHEDS = %s\n EVENTS = %s\n MAXF = %d\n"
              " Tab <- TabC\n"
              "INIT Init\nNEXT Next\n"
              "INVARIANTS TypeOK PvBehindSv SvOnGrid MvOnGrid\n"
              "PROPERTIES CounterStep\n" %
              (T, _set(SS), _set(PP), _set(STARTS), _set(MODES),
               _set(SCHEDS), _set(EVENTS), MAXF))
    out = os.path.join(d, "graph")
    p = subprocess.run(
        ["tlc", "-workers", "1", "-noGenerateSpecTE", "-deadlock",
         "-metadir", os.path.join(d, "meta"), "-dump", "dot,actionlabels",
         out, "RefreshProtocolMC.tla"], cwd=d, capture_output=True, text=True,
        timeout=1200,
        # TLC leaves an empty tlc-<n> directory in java.io.tmpdir per run:
        # point it into the scratch directory that is removed below
        env=dict(os.environ, JAVA_TOOL_OPTIONS=(
            os.environ.get("JAVA_TOOL_OPTIONS", "") +
            " -Djava.io.tmpdir=" + d).strip()))
    log = p.stdout + p.stderr
    if "No error has been found" not in log:
      raise RuntimeError("TLC reported a problem:\n" + log[-3000:])
    m = re.search(r"(\d+) states generated, (\d+) distinct states found", log)
    stats = {"generated": int(m.group(1)), "distinct": int(m.group(2))}
    graph = parse_dot(out + ".dot")
    stats["edges"] = sum(len(v) for v in graph["edges"].values())
    return graph, stats
  finally:
    shutil.rmtree(d, ignore_errors=True)


_node = re.compile(r'^(-?\d+) \[label="((?:[^"\\]|\\.)*)"(,style = filled)?')
_edge = re.compile(r'^(-?\d+) -> (-?\d+) \[label="((?:[^"\\]|\\.)*)"')


def parse_state(label):
  st = {}
  for part in label.replace("\\n", "\n").split("\n"):
    part = part.strip()
    if part.startswith("/\\\\"):
      part = part[3:].strip()
    elif part.startswith("/\\"):
      part = part[2:].strip()
    if " = " not in part:
      continue
    k, v = part.split(" = ", 1)
    v = v.strip().replace('\\"', '"')
    if v in ("TRUE", "FALSE"):
      st[k] = (v == "TRUE")
    elif v.startswith('"'):
      st[k] = v.strip('"')
    else:
      st[k] = int(v)
  return st


def parse_dot(path):
  nodes, edges, inits = {}, {}, []
  for line in open(path):
    line = line.strip()
    m = _edge.match(line)
    if m:
      a, b, lab = m.group(1), m.group(2), m.group(3)
      edges.setdefault(a, [])
      if (b, lab) not in edges[a]:
        edges[a].append((b, lab))
      continue
    m = _node.match(line)
    if m:
      nid = m.group(1)
      nodes[nid] = parse_state(m.group(2))
      if m.group(3):
        inits.append(nid)
  return {"nodes": nodes, "edges": edges, "inits": inits}


def subgraph(graph, init):
  """Reachable part from one initial node, JSON friendly."""
  seen, stack = {init}, [init]
  while stack:
    n = stack.pop()
    for b, _ in graph["edges"].get(n, []):
      if b not in seen:
        seen.add(b)
        stack.append(b)
  return {"init": init,
          "nodes": {n: graph["nodes"][n] for n in seen},
          "edges": {n: [b for b, _ in graph["edges"].get(n, [])]
                    for n in seen}}


def count_paths(sub):
  """Number of maximal paths (the graph is a DAG layered by count)."""
  memo = {}

  def f(n):
    if n in memo:
      return memo[n]
    succ = sub["edges"].get(n, [])
    memo[n] = 1 if not succ else sum(f(b) for b in succ)
    return memo[n]

  return f(sub["init"])


def python_automaton_count(T, SS, PP, STARTS, MODES, SCHEDS, EVENTS, MAXF,
                           tabs):
  """The same automaton explored by explicit BFS in Python (cross-check of
  the explorer against TLC: distinct states and edges must agree)."""
  def interval(st, t):
    return st["P"] if st["sched"] == 0 else tabs[st["sched"]][t]
  inits = []
  for S in SS:
    for P in PP:
      for start in STARTS:
        for mode in MODES:
          for sched in SCHEDS:
            if sched != 0 and (P != 1 or mode.startswith("tf_")):
              continue
            if mode == "tf_sketchy" and S != P:
              continue
            inits.append(dict(count=0, sv=-1, pv=-1, mv=-1, poisoned=False,
                              used="none", usedpv=-1, nf=0, ev="init", S=S,
                              P=P, start=start, mode=mode, sched=sched))
  key = lambda s: tuple(sorted(s.items()))
  seen = {key(s) for s in inits}
  frontier, edges = list(inits), 0
  while frontier:
    nxt = []
    for st in frontier:
      if st["count"] >= T:
        continue
      for g in EVENTS:
        if g == "nan" and st["nf"] >= MAXF:
          continue
        c = st["count"]
        stats_step = c % st["S"] == 0
        refresh = c % interval(st, c) == 0
        sv2 = c if stats_step else st["sv"]
        pois2 = st["poisoned"] or (stats_step and g == "nan")
        pv2 = sv2 if (refresh and not pois2) else st["pv"]
        s2 = dict(st, count=c + 1, sv=sv2, poisoned=pois2, pv=pv2,
                  mv=c if refresh else st["mv"],
                  used="graft" if c < st["start"] else "precond",
                  usedpv=st["pv"] if st["mode"] == "sharded" else pv2,
                  nf=st["nf"] + (g == "nan"), ev=g)
        edges += 1
        k = key(s2)
        if k not in seen:
          seen.add(k)
          nxt.append(s2)
    frontier = nxt
  return len(seen), edges
