"""C14 - training resumes bit-identically from serialized state at any step.

Crash-point enumeration (mcx): BFS over all gradient histories {gA,gB}^<=T;
at *every* reached state the extra transition
    serialize -> fresh optimizer object + fresh trace -> restore into init
is taken, and for every gradient of the alphabet the update from the restored
state must be bit-identical (update and next state) to the update from the
original state.  By induction over the BFS tree every continuation from every
crash point equals the uninterrupted run.  Thorough additionally restores in
a fresh process.
"""
import json
import os
import subprocess
import sys
import tempfile

import numpy as np

from mc.lib import Acc, tree_hash, trees_equal_bitwise, on_path

SHAPES = {"v": [3], "m": [4, 6]}
SHAPES_C = {"v": [3], "c": [6, 7]}

OPTIMIZERS = {
    "ds_full": ("ds", {}, "rep", SHAPES),
    "ds_full_eigh_sched": ("ds", {"eigh": True, "graft_type": 3,
                                  "learning_rate": {"sched": "lin"},
                                  "preconditioning_compute_steps": 2},
                           "rep", SHAPES),
    # scheduled (decaying) refresh interval, update stepped op by op: Python
    # code of the transformation runs on every call, so anything it keeps
    # outside the state pytree takes part
    "ds_sched_decay_eager": ("ds", {"graft_type": 3,
                                    "learning_rate": {"sched": "lin", "T": 4,
                                                      "m": 0.125},
                                    "decay_preconditioning_compute_steps":
                                        True,
                                    "end_preconditioning_compute_steps": 31,
                                    "preconditioning_compute_steps": 1},
                             "rep", SHAPES, {"jit": False}),
    # jax_enable_x64: dtype promotion differs between weakly and strongly
    # typed scalars there, and a serialized state only carries strong types
    "ds_sched_x64": ("ds", {"graft_type": 3,
                            "learning_rate": {"sched": "lin"},
                            "decoupled_learning_rate": False},
                     "rep", SHAPES, {"x64": True}),
    # the training process switched x64 on after importing the library, the
    # resuming process (fresh interpreter) has it on from the start
    "ds_full_x64late": ("ds", {"preconditioning_compute_steps": 2}, "rep",
                        SHAPES, {"x64": True, "x64_late": True}),
    "ds_quant_pmap": ("ds", {"best_effort_memory_usage_reduction": True},
                      "pmap", SHAPES),
    "ds_compressed": ("ds", {"compression_rank": 1, "block_size": 8},
                      "rep", SHAPES_C),
    "ds_fd": ("ds", {"compression_rank": 2, "block_size": 8,
                     "frequent_directions": True,
                     "reuse_preconditioner": True, "average_grad": True,
                     "generate_fd_metrics": True},
              "rep", SHAPES_C),
    "ds_sharded": ("ds", {"reuse_preconditioner": True}, "sharded", SHAPES),
    # sharded, a parameter excluded from preconditioning first in flatten
    # order; restored into the target declared by shape_and_dtype_fn
    "ds_sharded_declared": ("ds", {"skip_preconditioning_rank_lt": 2,
                                   "best_effort_shape_interpretation": False},
                            "sharded", {"a_bias": [5], "kernel": [4, 3],
                                        "z": [3, 3]}),
    "ds_lobpcg": ("ds", {"lobpcg_topk_precondition": 1, "block_size": 8},
                  "rep", SHAPES_C),
    "sm3": ("sm3", {"beta1": 0.9, "beta2": 0.999}, "rep", SHAPES),
    # stepped op by op, restored leaves used exactly as the deserializer
    # returns them (NumPy arrays): the int8 momentum goes through
    # QuantizedValue.to_float in Python on every call
    "sm3_eager": ("sm3", {"beta1": 0.9, "beta2": 0.999}, "rep", SHAPES,
                  {"jit": False}),
    "tf_sketchy_eager": ("tf", {"second_order_type": "sketchy",
                                "sketchy_rank": 2, "merge_dims": 2,
                                "update_freq": 2}, "rep", SHAPES,
                         {"jit": False, "tol": 1e-4}),
    # tol: with NumPy leaves part of the arithmetic is evaluated by NumPy,
    # which rounds a*x+b*y twice where XLA fuses it; the resumed run is
    # required to agree to 1e-4 of each leaf's magnitude instead of bitwise
    # (what this configuration is about is that the restored state can be
    # stepped at all and is not modified in place)
    "tf_shampoo_eager": ("tf", {"block_size": 2, "merge_dims": 2,
                                "update_statistics_freq": 2}, "rep", SHAPES,
                         {"jit": False, "tol": 1e-4}),
    # (tearfree Shampoo cannot be compared bitwise this way: with NumPy leaves part of its
    # moving average is evaluated by NumPy, which rounds a*x+b*y twice where
    # XLA fuses it - one-ulp differences that are not the library's doing)
    "tf_shampoo": ("tf", {"block_size": 2, "merge_dims": 2,
                          "update_preconditioners_freq": 2}, "rep", SHAPES),
    "tf_sketchy": ("tf", {"second_order_type": "sketchy", "sketchy_rank": 2,
                          "merge_dims": 2}, "rep", SHAPES),
    "tf_adafactor": ("tf", {"grafting_type": "adafactor", "graft_decay": 0.5,
                            "min_dim_size_to_factor": 2, "block_size": 2,
                            "merge_dims": 2, "ema": True}, "rep", SHAPES),
}


def plan(tier, seed):
  del seed
  depth = 3 if tier == "quick" else 5
  tasks = []
  for name in OPTIMIZERS:
    if tier == "quick" and name in ("ds_lobpcg", "tf_adafactor",
                                    "ds_full_eigh_sched"):
      d = 2
    else:
      d = depth
    opts = OPTIMIZERS[name][4] if len(OPTIMIZERS[name]) > 4 else {}
    if opts.get("jit") is False and OPTIMIZERS[name][0] in ("ds", "tf"):
      d = min(d, 3)      # op-by-op stepping: seconds per update
    tasks.append({"name": name, "opt": name, "depth": d,
                  # quick: fresh-process resume for three optimizers at crash
                  # points 0 and 1; thorough: all optimizers, points 0, 1, T
                  # (optimizers compared with a tolerance are not hashed
                  # across processes)
                  "cross_process": not opts.get("tol") and (
                      tier != "quick" or name in (
                          "ds_full", "ds_sharded", "tf_sketchy",
                          "ds_full_x64late")),
                  "cross_points": [0, 1] if tier == "quick" else [0, 1, d],
                  "profile": dict({"x64": bool(opts.get("x64"))},
                                  **({"x64_late": True}
                                     if opts.get("x64_late") else {})),
                  "weight": 2 ** d * (4 if opts.get("jit") is False else 1)})
  return {
      "tasks": tasks,
      "rule": "all histories over {gA,gB} up to depth T per optimizer; every "
              "reached state is a crash point (serialize, fresh object, "
              "restore, continue with every gradient); state = bit-exact "
              "optimizer state; non-trivial = crash point after at least "
              "one update",
      "bounds": {"depth": depth, "optimizers": list(OPTIMIZERS)},
      "assumptions": ["flax.serialization msgpack round trip into the "
                      "template produced by a fresh init",
                      "same process (quick) / fresh process (thorough), "
                      "same XLA build"],
      "timeout": 3000,
  }


class Machine:
  """Uniform init/step around the three optimizer families."""

  def __init__(self, spec):
    import jax
    import jax.numpy as jnp
    fam, cfg, mode, shapes = spec[:4]
    opts = spec[4] if len(spec) > 4 else {}
    self.fam, self.mode, self.shapes = fam, mode, shapes
    from mc import ds
    self.params_np = ds.make_params(shapes)
    if fam == "ds":
      self.runner = ds.Runner(cfg, shapes, mode, jit=opts.get("jit", True))
      self.init = self.runner.init
      self.step = self.runner.step
    else:
      from mc.props import c07
      opt = c07.build(fam, cfg)("rep", 1)
      params = {k: jnp.asarray(v) for k, v in self.params_np.items()}
      upd = jax.jit(opt.update) if opts.get("jit", True) else opt.update
      self.init = lambda: opt.init(params)
      self.step = lambda s, g: upd({k: jnp.asarray(v) for k, v in g.items()},
                                   s, params)

  def host(self, tree):
    import jax
    return jax.tree_util.tree_map(np.asarray, tree)


def child_main(path):
  """Fresh-process continuation: restore and take one step per gradient."""
  from flax import serialization
  from mc import ds
  job = json.load(open(path))
  spec = OPTIMIZERS[job["opt"]]
  m = Machine(spec)
  template = m.init()
  restored = serialization.from_bytes(template, open(job["state"], "rb")
                                      .read())
  alpha = ds.grad_trees(spec[3], ["gA", "gB"], (0, 2, 4))
  out = {}
  for ev in ["gA", "gB"]:
    u, s2 = m.step(restored, alpha[ev])
    out[ev] = [tree_hash(m.host(u)), tree_hash(m.host(s2))]
  json.dump(out, open(job["out"], "w"))


def run_task(task):
  import jax
  from flax import serialization
  from mc import ds
  acc = Acc(task["name"])
  spec = OPTIMIZERS[task["opt"]]
  m = Machine(spec)
  alpha = ds.grad_trees(spec[3], ["gA", "gB"], (0, 2, 4))
  s0 = m.init()
  frontier = [(s0, ())]
  seen = {tree_hash(m.host(s0))}
  sigbase = "C14|" + task["name"]

  def crash_point(s, hist):
    acc.states += 1
    if hist:
      acc.nontrivial += 1
    case = {"optimizer": task["opt"], "history": list(hist)}
    hs = m.host(s)
    data = serialization.to_bytes(hs)
    fresh = Machine(spec)                # fresh object, fresh trace
    template = fresh.init()
    if task["opt"] == "ds_sharded_declared":
      # the restore target a pjit user builds: zeros of the declared shapes
      import jax.numpy as jnp
      sd = fresh.runner.init_fns.shape_and_dtype_fn(fresh.runner.params)
      is_sd = lambda x: isinstance(x, list) and len(x) == 2 and \
          isinstance(x[0], (list, tuple)) and not isinstance(x[1], list)
      template = jax.tree_util.tree_map(
          lambda x: jnp.zeros(tuple(x[0]), x[1]), sd, is_leaf=is_sd)
    try:
      restored = serialization.from_bytes(template, data)
    except Exception as e:  # pylint: disable=broad-except
      acc.outcome("viol_restore_exc")
      acc.violation(sigbase + "|%s|restore" % ",".join(hist), "restoring "
                    "the serialized state raised %s: %s" %
                    (type(e).__name__, str(e)[:200]), case)
      return
    acc.transitions += 1
    t1 = jax.tree_util.tree_structure(restored)
    t0 = jax.tree_util.tree_structure(s)
    if t1 != t0 or not trees_equal_bitwise(m.host(restored), hs):
      acc.outcome("viol_restore_differs")
      acc.violation(sigbase + "|%s|restored" % ",".join(hist), "restored "
                    "state differs from the serialized one (structure equal: "
                    "%s)" % (t1 == t0), case)
      return
    tol = (spec[4] if len(spec) > 4 else {}).get("tol")

    def same(t1, t2):
      if not tol:
        return trees_equal_bitwise(t1, t2)
      l1, d1 = jax.tree_util.tree_flatten(t1)
      l2, d2 = jax.tree_util.tree_flatten(t2)
      if d1 != d2:
        return False
      for a, b in zip(l1, l2):
        a, b = np.asarray(a), np.asarray(b)
        if a.shape != b.shape or a.dtype != b.dtype:
          return False
        if a.dtype.kind == "f":
          sc = max(float(np.max(np.abs(a))) if a.size else 0.0, 1e-30)
          if not np.all(np.abs(a.astype(np.float64) - b) <= tol * sc):
            return False
        elif not np.array_equal(a, b):
          return False
      return True

    for ev in ["gA", "gB"]:
      u1, s1 = m.step(s, alpha[ev])
      try:
        u2, s2 = fresh.step(restored, alpha[ev])
      except Exception as e:  # pylint: disable=broad-except
        acc.outcome("viol_resume_raises")
        acc.violation(sigbase + "|%s|%s|resume_exc" % (",".join(hist), ev),
                      "stepping the restored state raised %s: %s" %
                      (type(e).__name__, str(e)[:200]), dict(case, event=ev))
        return
      acc.transitions += 1
      if not trees_equal_bitwise(m.host(restored), hs):
        acc.outcome("viol_restored_state_modified")
        acc.violation(sigbase + "|%s|%s|inplace" % (",".join(hist), ev),
                      "the update modified the restored state it was given "
                      "in place", dict(case, event=ev))
        return
      if not (same(m.host(u1), m.host(u2)) and
              same(m.host(s1), m.host(s2))):
        acc.outcome("viol_resume_differs")
        acc.violation(sigbase + "|%s|%s|resume" % (",".join(hist), ev),
                      "continuing from the restored state after %d updates "
                      "differs bitwise from the uninterrupted run (event %s)"
                      % (len(hist), ev), dict(case, event=ev))
        return
    acc.outcome("resume_bit_identical")
    acc.traces += 1
    if task.get("cross_process") and len(hist) in task.get(
        "cross_points", [0, 1, task["depth"]]) and \
        (len(hist) == 0 or hist[-1] == "gA"):
      d = tempfile.mkdtemp(prefix="c14_", dir="/tmp")
      try:
        open(os.path.join(d, "state.bin"), "wb").write(data)
        job = {"opt": task["opt"], "state": os.path.join(d, "state.bin"),
               "out": os.path.join(d, "out.json")}
        json.dump(job, open(os.path.join(d, "job.json"), "w"))
        env = dict(os.environ)
        # a restarted job is a different interpreter: in particular it has a
        # different string-hash salt
        env["PYTHONHASHSEED"] = str(1000 + len(hist) * 7 + len(data) % 97)
        p = subprocess.run(
            [sys.executable, "-c",
             "import sys, os; sys.path.insert(0, %r); "
             "r = os.environ.get('VERIF_REPO'); "
             "r and sys.path.insert(0, r); "
             "from mc.props import c14; "
             "c14.child_main(%r)" % (os.path.dirname(os.path.dirname(
                 os.path.dirname(os.path.abspath(__file__)))),
                                     os.path.join(d, "job.json"))],
            env=env, capture_output=True, text=True, timeout=900)
        if p.returncode != 0:
          acc.violation(sigbase + "|%s|child" % ",".join(hist),
                        "fresh-process continuation failed: " +
                        p.stderr[-400:], case)
          return
        got = json.load(open(os.path.join(d, "out.json")))
        for ev in ["gA", "gB"]:
          u1, s1 = m.step(s, alpha[ev])
          want = [tree_hash(m.host(u1)), tree_hash(m.host(s1))]
          if got[ev] != want:
            acc.outcome("viol_cross_process")
            acc.violation(sigbase + "|%s|%s|xproc" % (",".join(hist), ev),
                          "continuation in a fresh process differs bitwise "
                          "from the uninterrupted run", dict(case, event=ev))
            return
        acc.outcome("cross_process_identical")
      finally:
        import shutil
        shutil.rmtree(d, ignore_errors=True)
    acc.sample(dict(case, bytes=len(data)))

  crash_point(s0, ())
  for _ in range(task["depth"]):
    nxt = []
    for s, hist in frontier:
      for ev in ["gA", "gB"]:
        if not on_path(task, hist + (ev,)):
          continue
        _, s2 = m.step(s, alpha[ev])
        h2 = hist + (ev,)
        k = tree_hash(m.host(s2))
        if k in seen:
          acc.outcome("merged_states")
          continue
        seen.add(k)
        crash_point(s2, h2)
        nxt.append((s2, h2))
    frontier = nxt
  return acc.result()
