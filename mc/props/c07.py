"""C07 - state contract: shapes preserved, layout stable, accepted configs run.

Abstract mcx: the state of the exploration is the pytree *signature* of the
optimizer state (PyTreeDef compared with ==, leaf shapes, dtypes); the
transition is jax.eval_shape(update) on a concrete init.  Under tracing Python
control flow cannot depend on values, so sig(update(S0)) == S0 is an inductive
proof that every later state has the initial layout.  Configurations are
enumerated by deviation bounding over the full option tables of
distributed_shampoo (plain, batch axis, sharded), sm3 and tearfree, crossed
with parameter trees (scalars, unit dims, lone (1,), blocked, rank 4).  The
abstraction is bound to the code by running every <=1-deviation configuration
concretely for 3 updates and comparing signatures / exception classes.
"""
import itertools
import json
import traceback

import numpy as np

from mc.lib import Acc

TREES = {
    "T1": {"v": [3], "m": [2, 3]},
    "T2": {"s": [], "v": [5], "m": [4, 6], "t": [2, 3, 2]},
    "T3": {"u": [1], "w": [1, 3, 1, 2]},
    "T4": {"x": [1]},
    "T5": {"c": [6, 7], "q": [2, 2, 2, 2]},
    "T6": {"c": [6, 7], "v": [5]},
    # flatten order: the bias (excluded by rank rules) precedes the kernels
    "T7": {"a_bias": [5], "kernel": [4, 3], "z": [3, 3]},
}
BF16_TREES = {"T1bf16": "T1", "T7bf16": "T7"}

DS_OPTIONS = [
    ("graft_type", [0, 2, 3, 4, 5, 6]),
    ("beta1", [0.0]),
    ("beta2", [1.0, 0.5]),
    ("nesterov", [False]),
    ("moving_average_for_momentum", [True]),
    ("weight_decay", [0.25]),
    ("decoupled_weight_decay", [True]),
    ("decoupled_learning_rate", [False]),
    ("learning_rate", [{"sched": "lin"}]),
    ("block_size", [1, 2, 3, 8]),
    ("best_effort_shape_interpretation", [False]),
    ("merge_small_dims_block_size", [4, 2]),
    ("precondtioner_type", [2, 3]),
    ("exponent_override", [2, 3]),
    ("start_preconditioning_step", [0, 3]),
    ("preconditioning_compute_steps", [2]),
    ("statistics_compute_steps", [2]),
    ("skip_preconditioning_rank_lt", [0, 2, 3]),
    ("skip_preconditioning_dim_size_gt", [4, 2]),
    ("eigh", [True]),
    ("relative_matrix_epsilon", [False]),
    ("matrix_epsilon", [0.0]),
    ("inverse_failure_threshold", [0.0]),
    ("clip_by_scaled_gradient_norm", [0.5]),
    ("compression_rank", [1, 2, -1]),
    ("frequent_directions", [True]),
    ("reuse_preconditioner", [True]),
    ("reset_preconditioner", [True]),
    ("average_grad", [True]),
    ("generate_fd_metrics", [True]),
    ("generate_training_metrics", [False]),
    ("best_effort_memory_usage_reduction", [True]),
    ("lobpcg_topk_precondition", [1]),
    ("decay_preconditioning_compute_steps", [True]),
    ("end_preconditioning_compute_steps", [30]),
]

# options that share state layout: full cross product
DS_CLUSTER = [
    ("compression_rank", [0, 1, -1]),
    ("frequent_directions", [False, True]),
    ("reuse_preconditioner", [False, True]),
    ("average_grad", [False, True]),
    ("reset_preconditioner", [False, True]),
    ("best_effort_memory_usage_reduction", [False, True]),
    ("generate_training_metrics", [True, False]),
    ("generate_fd_metrics", [False, True]),
    ("skip_preconditioning_rank_lt", [1, 2]),
    ("block_size", [4, 8]),
    ("precondtioner_type", [1, 2]),
]

SM3_OPTIONS = [
    ("beta1", [0.0, 1.0]), ("beta2", [1.0, 0.5]), ("weight_decay", [0.25]),
    ("normalize_grads", [True]), ("learning_rate", [{"sched": "lin"}]),
    ("diagonal_epsilon", [0.0]),
]

TF_OPTIONS = [
    ("block_size", [2, 3, 4]),
    ("merge_dims", [2, 4, 1]),
    ("update_preconditioners_freq", [2, 0]),
    ("update_statistics_freq", [2]),
    ("second_moment_decay", [1.0, 0.0]),
    ("grafting_type", ["none", "sgd", "adafactor"]),
    ("graft_decay", [1.0, 0.5]),
    ("start_preconditioning_step", [2]),
    ("skip_preconditioning_rank1", [False]),
    ("skip_preconditioning_any_dim_gt", [2, 3]),
    ("ema", [True]), ("nesterov", [False]),
    ("momentum_decay", [0.0, 1.0]),
    ("weight_decay", [0.25]),
    ("weight_decay_after_momentum", [False]),
    ("learning_rate", [{"sched": "lin"}]),
    ("min_dim_size_to_factor", [2]),
]
# Tearfree with Sketchy as the base (its own family, so that combinations of
# two Sketchy options are within deviation 2)
TFS_BASE = {"second_order_type": "sketchy", "sketchy_rank": 2}
TFS_OPTIONS = [
    ("sketchy_rank", [1, 3, 128]),
    ("relative_epsilon", [False]),
    ("sketchy_epsilon", [0.0]),
    ("add_ggt", [True]), ("ekfac_svd", [True]),
    ("linear_approx_tail", [True]),
    ("update_freq", [2]),
    ("merge_dims", [2, 4]),
    ("second_moment_decay", [1.0, 0.0]),
    ("grafting_type", ["none", "sgd"]),
    ("skip_preconditioning_rank1", [False]),
    ("start_preconditioning_step", [2]),
    ("momentum_decay", [0.0]),
]


def deviations(options, k):
  singles = [{n: a} for n, alts in options for a in alts]
  out = [{}] + singles
  for kk in range(2, k + 1):
    for combo in itertools.combinations(singles, kk):
      keys = [list(c)[0] for c in combo]
      if len(set(keys)) < kk:
        continue
      c = {}
      for x in combo:
        c.update(x)
      out.append(c)
  return out


def cluster(options):
  names = [n for n, _ in options]
  out = []
  for vals in itertools.product(*[a for _, a in options]):
    out.append(dict(zip(names, vals)))
  return out


def cname(c):
  return ",".join("%s=%s" % (k, json.dumps(v) if isinstance(v, dict) else v)
                  for k, v in sorted(c.items())) or "default"


def plan(tier, seed):
  del seed
  k = 1 if tier == "quick" else 2
  tasks = []

  def add(family, cfgs, trees, transports, concrete, part, chunk=24,
          x64=False):
    items = [(c, t, tr) for c in cfgs for t in trees for tr in transports]
    for i in range(0, len(items), chunk):
      tasks.append({"name": "%s/%s/%d" % (family, part, i // chunk),
                    "family": family, "items": items[i:i + chunk],
                    "concrete": concrete, "part": family + "_" + part,
                    # 3 host devices, batch axis / pmap over 2 of them: the
                    # replica count is the size of the axis, not of the host
                    "profile": {"x64": x64, "devices": 3}, "x64": x64,
                    "weight": chunk})

  ds1 = deviations(DS_OPTIONS, 1)
  add("ds", ds1, ["T1", "T2", "T3", "T4", "T5"],
      ["plain", "batch", "sharded"], False, "k1")
  add("ds", ds1, ["T1", "T3", "T4", "T5"], ["plain"], True, "k1_concrete",
      chunk=8)
  if tier == "quick":
    add("ds", deviations(DS_OPTIONS, 2)[len(ds1):], ["T2"], ["plain"], False,
        "k2")
  else:
    add("ds", deviations(DS_OPTIONS, 2)[len(ds1):], ["T2", "T3", "T5"],
        ["plain", "sharded"], False, "k2")
    add("ds", ds1, ["T2"], ["batch", "sharded"], True, "k1_concrete2",
        chunk=8)
  cl = cluster(DS_CLUSTER)
  add("ds", cl, ["T6"] if tier == "quick" else ["T6", "T2"],
      ["plain"] if tier == "quick" else ["plain", "batch", "sharded"], False,
      "cluster")
  add("sm3", deviations(SM3_OPTIONS, 2), ["T1", "T2", "T3", "T4", "T5"],
      ["plain"], True, "k2",
      chunk=12)
  tf1 = deviations(TF_OPTIONS, 1)
  tfs2 = [dict(TFS_BASE, **c) for c in deviations(TFS_OPTIONS, 2)]
  add("tf", tfs2, ["T1", "T5"], ["plain"], False, "sketchy_k2")
  add("tf", tfs2[:len(TFS_OPTIONS) + 8], ["T2", "T3"], ["plain"], True,
      "sketchy_concrete", chunk=8)
  # parameters that are not float32: update dtype and state layout
  for fam, cfgs in (("ds", ds1[:1] + [{"graft_type": 3}]),
                    ("sm3", [{}]), ("tf", [{}, dict(TFS_BASE)])):
    add(fam, cfgs, list(BF16_TREES), ["plain"], False, "bf16")
  add("ds", [{"skip_preconditioning_rank_lt": 2},
             {"skip_preconditioning_rank_lt": 2,
              "best_effort_shape_interpretation": False},
             {"skip_preconditioning_dim_size_gt": 4},
             {"skip_preconditioning_rank_lt": 2,
              "best_effort_memory_usage_reduction": True}],
      ["T7", "T2"], ["sharded", "plain", "batch"], False, "skipped_first")
  # jax_enable_x64 with float32 parameters: NumPy scalars and default-dtype
  # constructors become float64 there, the layout contract is the same
  add("ds", deviations(DS_OPTIONS, 2), ["T2"], ["plain"], False, "x64_k2",
      x64=True)
  add("ds", [c for c in cl if c["block_size"] == 8 and
             c["precondtioner_type"] == 1 and
             c["skip_preconditioning_rank_lt"] == 1], ["T6"], ["plain"],
      False, "x64_cluster", x64=True)
  add("sm3", deviations(SM3_OPTIONS, 1), ["T1", "T3"], ["plain"], False,
      "x64_k1", x64=True)
  add("tf", tf1 + [dict(TFS_BASE)], ["T2"], ["plain"], False, "x64_k1",
      x64=True)
  add("tf", tf1, ["T1", "T2", "T3", "T4", "T5"], ["plain"], False, "k1")
  add("tf", tf1, ["T1", "T5"], ["plain"], True, "k1_concrete", chunk=8)
  add("tf", deviations(TF_OPTIONS, 2)[len(tf1):],
      ["T2"] if tier == "quick" else ["T2", "T3", "T5"], ["plain"], False,
      "k2")
  return {
      "tasks": tasks,
      "rule": "every configuration within %d deviation(s) of the defaults "
              "over the full option tables (distributed_shampoo %d options, "
              "sm3 %d, tearfree %d) x 5 parameter trees x transports "
              "{plain, batch axis, sharded}; k+1 deviations on one tree; "
              "full cross product of the %d-option layout cluster (%d "
              "configurations); state = pytree signature; non-trivial = "
              "configuration that differs from the default" %
              (k, len(DS_OPTIONS), len(SM3_OPTIONS), len(TF_OPTIONS),
               len(DS_CLUSTER), len(cl)),
      "bounds": {"deviation": k},
      "assumptions": [
          "abstract transition = jax.eval_shape(update) on a concrete init; "
          "vmap(axis_name) stands in for pmap in the abstract runs",
          "explicit rejection = exception raised by a raise statement of the "
          "package (or an assertion carrying a message), or the LOBPCG "
          "routine's own input validation"],
      "timeout": 3000,
  }


# ---------------------------------------------------------------------------
def signature(tree):
  import jax
  leaves, treedef = jax.tree_util.tree_flatten(tree)
  return treedef, [(tuple(np.shape(l)), str(getattr(l, "dtype", np.asarray(l)
                                                       .dtype)))
                   for l in leaves]


def sig_equal(a, b):
  return a[0] == b[0] and a[1] == b[1]


def sig_diff(a, b):
  if a[0] != b[0]:
    return "tree structure differs: %s vs %s" % (str(a[0])[:300],
                                                 str(b[0])[:300])
  for i, (x, y) in enumerate(zip(a[1], b[1])):
    if x != y:
      return "leaf %d: %s vs %s" % (i, x, y)
  return "leaf count %d vs %d" % (len(a[1]), len(b[1]))


def classify_exception(e):
  """'explicit' or 'internal'.

  Explicit rejection = the exception comes from a `raise` statement of the
  package (any of ValueError / NotImplementedError / TypeError), from one of
  its assertions that carries an explanatory message, or from the LOBPCG
  routine's own input validation.  JAX hides its internal frames, so an error
  raised inside JAX on behalf of a package call shows the package's *call*
  line as the innermost frame; the source text of that frame tells the two
  apart.
  """
  tb = traceback.extract_tb(e.__traceback__)
  last = tb[-1] if tb else None
  fname = last.filename if last else ""
  line = (last.line or "").strip() if last else ""
  in_pkg = "/precondition/" in fname and "/verif/" not in fname
  if isinstance(e, AssertionError):
    # explanatory = a sentence; a bare assert or one that only carries a
    # debug payload (tuple of shapes ...) is an internal error
    msg = e.args[0] if e.args else None
    ok = isinstance(msg, str) and " " in msg.strip()
    return "explicit" if (in_pkg and ok) else "internal"
  if isinstance(e, (ValueError, NotImplementedError, TypeError)):
    if in_pkg and line.startswith("raise"):
      return "explicit"
    if isinstance(e, ValueError) and "expected search dim" in str(e):
      return "explicit"      # jax.experimental.sparse.linalg.lobpcg_standard
    return "internal"
  return "internal"


def make_params(tree):
  from mc import ds
  if tree in BF16_TREES:
    import jax.numpy as jnp
    return {k: np.asarray(jnp.asarray(v).astype(jnp.bfloat16))
            for k, v in ds.make_params(TREES[BF16_TREES[tree]]).items()}
  return ds.make_params(TREES[tree])


def build(family, cfg):
  """Returns (opt, transport hints)."""
  if family == "ds":
    from mc import ds
    return lambda mode, nd: ds.build_opt(cfg, mode, nd)
  if family == "sm3":
    from precondition import sm3
    from mc.ref import shampoo as ref
    kw = dict(cfg)
    lr = kw.pop("learning_rate", 0.25)
    if isinstance(lr, dict):
      f = ref.lr_fn(lr)
      import jax.numpy as jnp
      lr = lambda t: 0.25 * jnp.maximum(1.0 - t / 8, 0.125)
      del f
    return lambda mode, nd: sm3.sm3(lr, **kw)
  return lambda mode, nd: build_tearfree(cfg)


def build_tearfree(cfg):
  import jax.numpy as jnp
  from precondition.tearfree import optimizer as tf
  from precondition.tearfree import grafting, momentum, second_order
  from precondition.tearfree import shampoo, sketchy
  c = dict(cfg)
  lr = c.get("learning_rate", 0.25)
  if isinstance(lr, dict):
    lr = lambda t: 0.25 * jnp.maximum(1.0 - t / 8, 0.125)
  gt = grafting.GraftingType(c.get("grafting_type", "rmsprop"))
  gdec = c.get("graft_decay", 0.999)
  if gt in (grafting.GraftingType.NONE, grafting.GraftingType.SGD) and \
      "graft_decay" not in c:
    gdec = 0.0
  go = grafting.Options(
      grafting_type=gt, second_moment_decay=gdec,
      start_preconditioning_step=c.get("start_preconditioning_step", 0),
      skip_preconditioning_rank1=c.get("skip_preconditioning_rank1", True),
      skip_preconditioning_any_dim_gt=c.get(
          "skip_preconditioning_any_dim_gt", 4096),
      min_dim_size_to_factor=c.get("min_dim_size_to_factor", 128))
  sot = second_order.SecondOrderType(c.get("second_order_type", "shampoo"))
  smd = c.get("second_moment_decay", 0.999)
  if sot == second_order.SecondOrderType.SHAMPOO:
    so = second_order.Options(
        merge_dims=c.get("merge_dims", 1024), second_order_type=sot,
        shampoo_options=shampoo.Options(
            block_size=c.get("block_size", 1024),
            update_preconditioners_freq=c.get("update_preconditioners_freq",
                                              1),
            update_statistics_freq=c.get("update_statistics_freq", 1),
            second_moment_decay=smd))
  else:
    so = second_order.Options(
        merge_dims=c.get("merge_dims", 1024), second_order_type=sot,
        shampoo_options=None,
        sketchy_options=sketchy.Options(
            epsilon=c.get("sketchy_epsilon", 1e-7),
            rank=c.get("sketchy_rank", 128),
            relative_epsilon=c.get("relative_epsilon", True),
            second_moment_decay=smd, update_freq=c.get("update_freq", 1),
            add_ggt=c.get("add_ggt", False),
            ekfac_svd=c.get("ekfac_svd", False),
            linear_approx_tail=c.get("linear_approx_tail", False)))
  mo = momentum.Options(
      ema=c.get("ema", False), nesterov=c.get("nesterov", True),
      momentum_decay=c.get("momentum_decay", 0.9),
      weight_decay=c.get("weight_decay", 0.0),
      weight_decay_after_momentum=c.get("weight_decay_after_momentum", True))
  return tf.tearfree(lr, tf.TearfreeOptions(go, so, mo))


def check_item(acc, family, cfg, tree, transport, concrete, x64=False):
  import jax
  import jax.numpy as jnp
  from jax.sharding import Mesh, PartitionSpec as P
  sig = "C07|%s|%s|%s|%s" % (family, cname(cfg), tree, transport)
  case = {"family": family, "cfg": cfg, "tree": tree,
          "shapes": TREES[BF16_TREES.get(tree, tree)],
          "transport": transport, "concrete": concrete}
  acc.states += 1
  if cfg:
    acc.nontrivial += 1
  kf = {"family": family, "transport": transport,
        "param_dtype": "bfloat16" if tree in BF16_TREES else "float32",
        "x64": bool(x64), "fd": bool(cfg.get("frequent_directions"))}
  case["jax_enable_x64"] = bool(x64)

  def viol(kind, what):
    acc.outcome("viol_" + kind)
    acc.violation(sig + "|" + kind, what, case, kf=dict(kf, kind=kind,
                                                        cfg=cname(cfg)))

  def reject(stage, e):
    cls = classify_exception(e)
    if cls == "explicit":
      acc.outcome("rejected_explicitly_%s" % stage)
    else:
      tb = traceback.extract_tb(e.__traceback__)
      where = "%s:%d" % (tb[-1].filename.split("/")[-1], tb[-1].lineno) \
          if tb else "?"
      viol("internal_error_" + stage,
           "%s raised an internal error instead of an explicit rejection: "
           "%s: %s (at %s)" % (stage, type(e).__name__, str(e)[:200], where))

  params_np = make_params(tree)
  params = {k: jnp.asarray(v) for k, v in params_np.items()}
  grads = {k: jnp.asarray(v) * 0.5 for k, v in params_np.items()}
  mode = {"plain": "rep", "batch": "pmap", "sharded": "sharded"}[transport]
  try:
    opt = build(family, cfg)(mode, 2)
  except Exception as e:  # pylint: disable=broad-except
    reject("construction", e)
    return
  mesh = Mesh(np.array(jax.devices()[:1]), ("x",))
  # ---- init -----------------------------------------------------------
  try:
    if transport == "sharded":
      fns = opt.init(None)
      with mesh:
        state = fns.init_fn(params)
    else:
      state = opt.init(params)
  except Exception as e:  # pylint: disable=broad-except
    reject("init", e)
    return
  acc.transitions += 1
  sig0 = signature(state)
  # ---- sharded: the three descriptions agree --------------------------
  if transport == "sharded":
    try:
      sd = fns.shape_and_dtype_fn(params)
      pspecs = {k: P(*([None] * len(np.shape(v)))) for k, v in params.items()}
      ps = fns.pspec_fn(params, pspecs, P("x"))
      is_sd = lambda x: isinstance(x, list) and len(x) == 2 and \
          isinstance(x[0], (list, tuple)) and not isinstance(x[1], list)
      sd_leaves, sd_def = jax.tree_util.tree_flatten(sd, is_leaf=is_sd)
      st_leaves, st_def = jax.tree_util.tree_flatten(state)
      is_ps = lambda x: isinstance(x, P) or x is None
      ps_leaves, ps_def = jax.tree_util.tree_flatten(ps, is_leaf=is_ps)
      if len(sd_leaves) != len(st_leaves) or len(ps_leaves) != len(st_leaves):
        viol("sharded_trees_differ", "init state has %d leaves, declared "
             "shapes/dtypes %d, partition specs %d" %
             (len(st_leaves), len(sd_leaves), len(ps_leaves)))
      else:
        for i, (a, b) in enumerate(zip(st_leaves, sd_leaves)):
          want = (tuple(a.shape), jnp.dtype(a.dtype))
          got = (tuple(b[0]), jnp.dtype(b[1]))
          if want != got:
            viol("sharded_decl_mismatch", "leaf %d of the sharded state is "
                 "%s but declared as %s" % (i, want, got))
            break
        else:
          # the static bookkeeping (which rows of the stacked statistics a
          # parameter owns) is part of the tree structure
          is_loc = lambda x: hasattr(x, "index_start") and hasattr(x, "sizes")
          loc = lambda t: [(int(x.index_start), [int(s) for s in x.sizes])
                           for x in jax.tree_util.tree_leaves(
                               t.stats.local_stats, is_leaf=is_loc)
                           if is_loc(x)]
          l_state, l_sd, l_ps = loc(state), loc(sd), loc(ps)
          if not (l_state == l_sd == l_ps):
            viol("sharded_static_mismatch", "row bookkeeping (index_start, "
                 "sizes) differs between the init state %s, the declared "
                 "shapes %s and the partition specs %s" %
                 (l_state, l_sd, l_ps))
          else:
            acc.outcome("sharded_descriptions_agree")
    except Exception as e:  # pylint: disable=broad-except
      reject("sharded_description", e)
  # ---- abstract transition -------------------------------------------
  try:
    if transport == "batch":
      rep = lambda t: jax.tree_util.tree_map(
          lambda x: jnp.stack([x, x]), t)
      f = jax.vmap(opt.update, axis_name="batch")
      out = jax.eval_shape(f, rep(grads), rep(state), rep(params))
      strip = lambda t: jax.tree_util.tree_map(
          lambda x: jax.ShapeDtypeStruct(x.shape[1:], x.dtype), t)
      upd_s, st_s = strip(out[0]), strip(out[1])
    elif transport == "sharded":
      with mesh:
        upd_s, st_s = jax.eval_shape(opt.update, grads, state, params)
    else:
      upd_s, st_s = jax.eval_shape(opt.update, grads, state, params)
  except Exception as e:  # pylint: disable=broad-except
    reject("update", e)
    upd_s = None
  if upd_s is not None:
    acc.transitions += 1
    sig1 = signature(st_s)
    su, sp = signature(upd_s), signature(params)
    ok = True
    if not sig_equal(su, sp):
      viol("update_tree", "update tree differs from the parameters: " +
           sig_diff(su, sp))
      ok = False
    if not sig_equal(sig1, sig0):
      viol("state_layout_changed", "state after one update does not have "
           "the initial layout: " + sig_diff(sig1, sig0))
      ok = False
    if ok:
      acc.outcome("layout_fixed_point")
      acc.sample({"family": family, "cfg": cfg, "tree": tree,
                  "transport": transport, "state_leaves": len(sig0[1])})
  # ---- concrete conformance ------------------------------------------
  if concrete and transport == "batch" and family == "ds":
    try:
      nstats = sum(len(ps.statistics) for ps in
                   jax.tree_util.tree_leaves(
                       state.stats, is_leaf=lambda x: hasattr(x, "statistics")))
    except Exception:  # pylint: disable=broad-except
      nstats = 1
    if nstats == 0:
      # XLA's CPU compiler segfaults on the (collective-free) pmap program of
      # an optimizer without any statistic; nothing of the library runs there
      acc.outcome("concrete_pmap_skipped_no_statistics")
      concrete = False
  if concrete:
    try:
      if transport == "batch":
        rep = lambda t: jax.tree_util.tree_map(
            lambda x: jnp.stack([x, x]), t)
        f = jax.pmap(opt.update, axis_name="batch")
        s, g, p = rep(state), rep(grads), rep(params)
        for _ in range(3):
          u, s = f(g, s, p)
        strip = lambda t: jax.tree_util.tree_map(lambda x: x[0], t)
        u, s = strip(u), strip(s)
      else:
        f = jax.jit(opt.update)
        s = state
        if transport == "sharded":
          with mesh:
            for _ in range(3):
              u, s = f(grads, s, params)
        else:
          for _ in range(3):
            u, s = f(grads, s, params)
      conc = (signature(s), signature(u))
      if upd_s is None:
        viol("abstract_concrete_disagree", "abstract transition raised but "
             "three concrete updates succeeded")
      elif not (sig_equal(conc[0], sig1) and sig_equal(conc[1], su)):
        viol("abstract_concrete_disagree", "concrete state/update signature "
             "differs from the abstract one: " + sig_diff(conc[0], sig1))
      else:
        acc.outcome("concrete_conforms")
        acc.traces += 1
    except Exception as e:  # pylint: disable=broad-except
      if upd_s is not None:
        cls = classify_exception(e)
        viol("concrete_raised", "three concrete updates raised %s: %s (%s) "
             "although the abstract transition succeeded" %
             (type(e).__name__, str(e)[:200], cls))
      else:
        acc.outcome("concrete_conforms_exception")
        acc.traces += 1


def run_task(task):
  acc = Acc(task["name"])
  for cfg, tree, transport in task["items"]:
    try:
      check_item(acc, task["family"], cfg, tree, transport, task["concrete"],
                 task.get("x64", False))
    except Exception as e:  # pylint: disable=broad-except
      acc.violation("C07|%s|%s|%s|%s|harness" % (task["family"], cname(cfg),
                                                tree, transport),
                    "harness error %s: %s" % (type(e).__name__, str(e)[:300]),
                    {"trace": traceback.format_exc()[-1200:]},
                    kf={"kind": "harness"})
  return acc.result()
