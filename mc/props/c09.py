"""C09 - frequent-directions sketch brackets the true second moment.

mcx: BFS over all gradient histories from {full rank, rank 1 along e1, rank 1
generic, zero, 2^10-scaled} up to depth T through
 (i)   distributed_shampoo._fd_update_root iterated directly (factors from
       frequent_directions_update; padding 0/3; epsilon 0 / 1e-3 absolute),
 (ii)  tearfree.sketchy._update_axis for every axis of rank 1..3 tensors,
 (iii) the OCO sketches (delegated to the C16 machinery),
 (iv)  the sketches stored in optimizer state after public update calls
       (distributed_shampoo FD mode, tearfree Sketchy),
against the exact float64 covariance C <- b C + G G^T.
"""
import numpy as np

from mc.lib import Acc, arr_hash, rng

EVENTS = ["full", "e1", "r1", "zero", "big"]


def grad_events(d, m, dtype):
  """d x m gradient matrices (dyadic)."""
  rs = rng(0, "c09", d, m)
  full = (rs.randint(1, 9, size=(d, m)) * rs.choice([-1, 1], size=(d, m))
          / 4.0)
  while np.linalg.matrix_rank(full) < min(d, m):
    full = full + np.eye(d, m)
  e1 = np.zeros((d, m))
  e1[0, 0] = 1.5
  u = ((np.arange(d) * 3 + 1) % 5 - 2) / 2.0
  u = np.where(u == 0, 0.5, u)
  v = ((np.arange(m) * 2 + 1) % 3 - 1) / 2.0
  v = np.where(v == 0, 0.25, v)
  r1 = np.outer(u, v)
  return {"full": full.astype(dtype), "e1": e1.astype(dtype),
          "r1": r1.astype(dtype), "zero": np.zeros((d, m), dtype),
          "big": (full * 2.0**10).astype(dtype)}


def plan(tier, seed):
  del seed
  depth = 4 if tier == "quick" else 5
  tasks = []
  for k in [1, 2, 3]:
    for b in [1.0, 0.5, 0.25]:
      for pad in [0, 3]:
        for eps in [0.0, 1e-3]:
          for x64 in ([True] if tier == "quick" and (pad or eps) else
                      [True, False]):
            tasks.append({"name": "ds_root/k%d/b%s/pad%d/eps%g/%s" %
                          (k, b, pad, eps, "f64" if x64 else "f32"),
                          "kind": "ds_root", "k": k, "b": b, "pad": pad,
                          "eps": eps, "depth": depth, "x64": x64,
                          "profile": {"x64": x64}, "part": "ds_fd_root"})
  shapes = [[5], [4, 3], [3, 2, 4]] if tier == "quick" else \
      [[5], [8], [4, 3], [2, 6], [3, 2, 4], [2, 2, 5]]
  for sh in shapes:
    for k in [1, 2, 3]:
      for b in [1.0, 0.5, 0.25]:
        tasks.append({"name": "tf_axis/%s/k%d/b%s" %
                      ("x".join(map(str, sh)), k, b), "kind": "tf_axis",
                      "shape": sh, "k": k, "b": b, "depth": depth,
                      "profile": {"x64": False}, "part": "tearfree_axis"})
  for b in [1.0, 0.5]:
    for k in [1, 2]:
      for shp in ([6, 7], [6, 6]):
        tasks.append({"name": "ds_public/%dx%d/k%d/b%s" % (shp[0], shp[1], k,
                                                          b),
                      "kind": "ds_public", "k": k, "b": b, "shape": shp,
                      "depth": min(depth, 3), "profile": {"x64": False},
                      "part": "ds_public"})
      tasks.append({"name": "tf_public/k%d/b%s" % (k, b),
                    "kind": "tf_public", "k": k, "b": b,
                    "depth": min(depth, 3), "profile": {"x64": False},
                    "part": "tearfree_public"})
      # the same sketches when the optimizer runs under jax.pmap over two
      # devices (each device computes one of the two statistics' roots from
      # its own previous sketch)
      tasks.append({"name": "ds_public_pmap2/6x6/k%d/b%s" % (k, b),
                    "kind": "ds_public", "k": k, "b": b, "shape": [6, 6],
                    "pmap": 2, "depth": min(depth, 3),
                    "profile": {"x64": False, "devices": 2},
                    "part": "ds_public"})
  tasks.append({"name": "fd_factor", "kind": "fd_factor", "tier": tier,
                "profile": {"x64": True}, "part": "ds_fd_factor"})
  for b in [1.0, 0.5]:
    tasks.append({"name": "ds_public/4x5x4/k1/b%s" % b, "kind": "ds_public",
                  "k": 1, "b": b, "shape": [4, 5, 4], "depth": 2,
                  "profile": {"x64": False}, "part": "ds_public"})
    tasks.append({"name": "tf_public/3x4x3/k2/b%s" % b, "kind": "tf_public",
                  "k": 2, "b": b, "shape": [3, 4, 3], "depth": 2,
                  "profile": {"x64": False}, "part": "tearfree_public"})
  for alg in ["S_ADA", "ADA_FD", "FD_SON", "RFD_SON"]:
    for n, sk in [(3, 2), (4, 3)]:
      tasks.append({"name": "oco/%s/n%d/l%d" % (alg, n, sk), "kind": "oco",
                    "alg": alg, "n": n, "delta": 0.5, "lr": 1.0,
                    "sketch": sk, "depth": depth,
                    "profile": {"x64": True}, "part": "oco"})
  return {
      "tasks": tasks,
      "rule": "all histories over %s up to depth %d per (implementation, "
              "rank k, decay b, padding, epsilon, tensor shape/axis); state = "
              "bit-exact sketch state + exact covariance; non-trivial = "
              "transition with a non-zero gradient" % (EVENTS, depth),
      "bounds": {"depth": depth, "k": [1, 2, 3], "b": [1.0, 0.5, 0.25]},
      "assumptions": ["the bracket against the exact covariance is checked "
                      "with epsilon = 0; with a ridge the one-step relation "
                      "and the tail recurrence are checked (the ridge is "
                      "re-added to the retained eigenvalues every step)"],
      "timeout": 3000,
  }


class SketchOracle:
  """Shared invariants on (V, l, t) against exact covariances."""

  def __init__(self, acc, sigbase, case0, f64):
    self.acc, self.sigbase, self.case0 = acc, sigbase, case0
    self.rel = 1e-10 if f64 else 2e-5

  def viol(self, hist, kind, what):
    self.acc.outcome("viol_" + kind)
    self.acc.violation("%s|%s|%s" % (self.sigbase, ",".join(hist), kind),
                       what, dict(self.case0, history=list(hist), kind=kind),
                       kf=getattr(self, "kf", None))

  def check(self, hist, V, l, t, C, prev, G, b, k, real_d, ridge_prev=0.0,
            check_bracket=True, inv=None, inv_tail=None, p=None, eps=0.0):
    """prev = (V0, l0, t0) before the step; G: d x m gradient matrix."""
    V, l = np.asarray(V, np.float64), np.asarray(l, np.float64)
    t = float(t)
    d = V.shape[0]
    nC = max(np.linalg.norm(C, 2), 1e-300)
    tau = self.rel * nC
    ok = True
    if not (np.all(np.isfinite(V)) and np.all(np.isfinite(l)) and
            np.isfinite(t)):
      self.viol(hist, "nonfinite", "sketch state not finite")
      return
    if np.any(l < 0) or t < 0:
      self.viol(hist, "negative", "eigenvalues or escaped mass negative: "
                "min l %.3g, t %.3g" % (l.min() if l.size else 0, t))
      ok = False
    gram = V.T @ V
    nz = np.diag(gram) > 0.5
    want = np.diag(nz.astype(float))
    if np.max(np.abs(gram - want)) > (1e-8 if self.rel < 1e-8 else 2e-5):
      self.viol(hist, "orthonormal", "columns of V are neither orthonormal "
                "nor zero: max |V'V - I_nz| = %.3g" %
                np.max(np.abs(gram - want)))
      ok = False
    if real_d < d and np.max(np.abs(V[real_d:])) > 0:
      self.viol(hist, "padding", "eigenvectors are not zero on padding rows")
      ok = False
    S = (V * l) @ V.T
    if check_bracket:
      lo = np.linalg.eigvalsh(C - S).min()
      hi = np.linalg.eigvalsh(S + t * np.eye(d) - C)[:].min() if real_d == d \
          else np.linalg.eigvalsh((S + t * np.eye(d) - C)[:real_d,
                                                         :real_d]).min()
      if lo < -tau or hi < -tau:
        self.viol(hist, "bracket", "sketch leaves the bracket: lmin(C-S)="
                  "%.3g, lmin(S+tI-C)=%.3g, ||C||=%.3g" % (lo, hi, nC))
        ok = False
      if np.linalg.matrix_rank(C, tol=1e-9 * nC) <= k and t > tau:
        self.viol(hist, "lossless", "history of rank <= k but escaped mass "
                  "t=%.3g" % t)
        ok = False
    # one-step relation and tail recurrence from the previous sketch
    V0, l0, t0 = [np.asarray(x, np.float64) for x in prev]
    M = b * ((V0 * (l0 + ridge_prev * (np.diag(V0.T @ V0) > 0.5))) @ V0.T) \
        + G @ G.T
    w = np.sort(np.linalg.eigvalsh(M))[::-1]
    w = np.maximum(w, 0)
    r = w[k] if k < real_d else 0.0
    nM = max(w[0], nC, 1e-300)
    tau1 = self.rel * nM
    if abs(t - (b * float(t0) + r)) > tau1 + self.rel * abs(t):
      self.viol(hist, "tail_recurrence", "escaped mass %.9g != b*t_old + "
                "removed eigenvalue = %.9g*%.9g + %.9g" % (t, b, float(t0),
                                                           r))
      ok = False
    lw = np.sort(l)[::-1]
    want_l = np.maximum(w[:len(lw)] - r, 0)
    if np.max(np.abs(lw - want_l)) > 4 * tau1:
      self.viol(hist, "deflation", "retained eigenvalues %s != top-k of the "
                "pre-deflation matrix minus the removed one %s" %
                (lw.tolist(), want_l.tolist()))
      ok = False
    if not np.any(G) and float(t0) >= 0:
      if abs(t - b * float(t0)) > tau1 or \
          np.max(np.abs(np.sort(l) - np.sort(
              b * (l0 + ridge_prev * (l0 > 0))))) > 4 * tau1 and \
          ridge_prev == 0.0:
        self.viol(hist, "zero_step", "zero-gradient step must discount "
                  "sketch and escaped mass by b=%g: t %.6g -> %.6g" %
                  (b, float(t0), t))
        ok = False
    if inv is not None:
      inv = np.asarray(inv, np.float64)
      act = l > 0
      want_inv = np.where(act, (l + t + eps) ** (-1.0 / p), 0.0)
      scale = max(np.max(np.abs(want_inv)), 1e-300)
      if np.max(np.abs(inv - want_inv)) > (1e-8 if self.rel < 1e-8 else
                                           2e-4) * scale:
        self.viol(hist, "inverse_roots", "stored inverse roots %s != (l + t "
                  "+ eps)^(-1/p) = %s" % (inv.tolist(), want_inv.tolist()))
        ok = False
      if inv_tail is not None:
        wt = (t + eps) ** (-1.0 / p) if t > 0 else 0.0
        if t > 10 * tau1 and abs(float(inv_tail) - wt) > \
            (1e-8 if self.rel < 1e-8 else 2e-4) * max(wt, 1e-300):
          self.viol(hist, "inverse_tail", "stored tail root %.6g != (t + "
                    "eps)^(-1/p) = %.6g" % (float(inv_tail), wt))
          ok = False
    if ok:
      self.acc.outcome("sketch_ok")


def run_ds_root(task, acc):
  import jax
  import jax.numpy as jnp
  from precondition import distributed_shampoo as ds
  k, b, pad, eps = task["k"], task["b"], task["pad"], task["eps"]
  f64 = task["x64"]
  dt = np.float64 if f64 else np.float32
  d = k + 3
  n = d + pad
  m = d + 1
  p = 4
  ev = grad_events(d, m, dt)
  ps = jnp.asarray(d, jnp.int32)

  @jax.jit
  def step(prev, g):
    fac = ds.frequent_directions_update(None, g, 0, 0.0, 0.0)
    full = jnp.zeros((n, n), g.dtype).at[:d, :d].set(fac)
    if pad:   # garbage in the padding, must be masked by padding_start
      full = full.at[d:, d:].set(3.0)
    val, _ = ds._fd_update_root(full, p, rank=k, ridge_epsilon=eps,
                                relative_matrix_epsilon=False, decay=b,
                                padding_start=ps, prev=prev)
    return val

  case0 = {"impl": "distributed_shampoo._fd_update_root", "k": k, "b": b,
           "padding": pad, "eps": eps, "dtype": dt.__name__}
  orc = SketchOracle(acc, "C09|" + task["name"], case0, f64)
  s0 = np.zeros((n, k + 2), dt)
  frontier = [(s0, np.zeros((d, d)), ())]
  seen = {arr_hash(s0)}
  acc.states += 1
  for _ in range(task["depth"]):
    nxt = []
    for s, C, hist in frontier:
      V0, l0, _, _, t0, _ = [np.asarray(x) for x in
                             ds._fd_low_rank_unpack(jnp.asarray(s), k)]
      for e in EVENTS:
        G = ev[e].astype(np.float64)
        s2 = np.asarray(step(jnp.asarray(s), jnp.asarray(ev[e])))
        acc.transitions += 1
        if e != "zero":
          acc.nontrivial += 1
        h2 = hist + (e,)
        C2 = b * C + G @ G.T
        V, l, inv, const, t, hz = [np.asarray(x) for x in
                                   ds._fd_low_rank_unpack(jnp.asarray(s2), k)]
        Cp = np.zeros((n, n))
        Cp[:d, :d] = C2
        Gp = np.zeros((n, m))
        Gp[:d] = G
        orc.check(h2, V, l, t, Cp, (V0, l0, t0), Gp, b, k, d,
                  ridge_prev=eps, check_bracket=(eps == 0.0), inv=inv,
                  inv_tail=None, p=p, eps=0.0)
        want_c = float(t) ** (-1.0 / p) if float(t) > 0 else 0.0
        if abs(float(const) - want_c) > (1e-8 if f64 else 2e-4) * \
            max(want_c, 1e-300) and float(t) > 1e-6:
          orc.viol(h2, "const", "stored complement root %.6g != t^(-1/p) "
                   "%.6g" % (float(const), want_c))
        key = arr_hash(s2, C2)
        if key in seen:
          acc.outcome("merged_states")
          continue
        seen.add(key)
        acc.states += 1
        nxt.append((s2, C2, h2))
        acc.sample(dict(case0, history=list(h2), tail=float(t),
                        eigvals=np.asarray(l).tolist()))
    frontier = nxt


def run_tf_axis(task, acc):
  import jax
  import jax.numpy as jnp
  from precondition.tearfree import sketchy
  sh, k, b = tuple(task["shape"]), task["k"], task["b"]
  opts = sketchy.Options(rank=k, second_moment_decay=b, epsilon=1e-7,
                         relative_epsilon=True)
  nd = len(sh)
  size = int(np.prod(sh))
  evs = {}
  base = grad_events(sh[0], size // sh[0], np.float32)
  for e in EVENTS:
    evs[e] = base[e].reshape(sh)
  params = {"w": jnp.zeros(sh, jnp.float32)}
  st0 = sketchy._init(opts, params).sketches["w"]

  @jax.jit
  def step(axes, g):
    return [sketchy._update_axis(opts, dim, (), g, ax)
            for dim, ax in enumerate(axes)]

  case0 = {"impl": "tearfree.sketchy._update_axis", "shape": sh, "k": k,
           "b": b}
  orc = SketchOracle(acc, "C09|" + task["name"], case0, False)

  def unfold(g, ax):
    return np.moveaxis(g, ax, 0).reshape(g.shape[ax], -1).astype(np.float64)

  def flat(axes):
    return [np.asarray(x) for a in axes for x in (a.eigvecs, a.eigvals,
                                                  a.inv_eigvals, a.tail,
                                                  a.inv_tail)]

  C0 = [np.zeros((d, d)) for d in sh]
  frontier = [(st0.axes, C0, ())]
  seen = {arr_hash(*flat(st0.axes))}
  acc.states += 1
  p = 2 * nd
  for _ in range(task["depth"]):
    nxt = []
    for axes, Cs, hist in frontier:
      for e in EVENTS:
        g = evs[e]
        new_axes = step(axes, jnp.asarray(g))
        acc.transitions += 1
        if e != "zero":
          acc.nontrivial += 1
        h2 = hist + (e,)
        C2 = []
        for ax in range(nd):
          G = unfold(g, ax)
          Cn = b * Cs[ax] + G @ G.T
          C2.append(Cn)
          a0, a1 = axes[ax], new_axes[ax]
          kk = min(sh[ax], k)
          l1 = np.asarray(a1.eigvals, np.float64) ** 2
          l0 = np.asarray(a0.eigvals, np.float64) ** 2
          lam = l1 + float(a1.tail)
          eps = 1e-7 * (lam.max() if lam.size else 0.0)
          orc.case0 = dict(case0, axis=ax)
          orc.check(h2 + ("ax%d" % ax,), a1.eigvecs, l1, a1.tail, Cn,
                    (a0.eigvecs, l0, a0.tail), G, b, kk, sh[ax],
                    inv=a1.inv_eigvals, inv_tail=a1.inv_tail, p=p, eps=eps)
        key = arr_hash(*flat(new_axes), *C2)
        if key in seen:
          acc.outcome("merged_states")
          continue
        seen.add(key)
        acc.states += 1
        nxt.append((new_axes, C2, h2))
        acc.sample(dict(case0, history=list(h2),
                        tails=[float(a.tail) for a in new_axes]))
    frontier = nxt


def run_public(task, acc):
  """Sketches inside optimizer state after public update calls."""
  import jax
  import jax.numpy as jnp
  k, b = task["k"], task["b"]
  sh = tuple(task.get("shape", (6, 7)))
  nd = len(sh)
  ev = {k: v.reshape(sh) for k, v in
        grad_events(sh[0], int(np.prod(sh[1:])), np.float32).items()}
  evs = ["full", "r1", "zero", "big"]
  params = {"c": jnp.asarray(ev["full"] * 0.5)}
  if task["kind"] == "ds_public":
    from mc import ds as dsh
    from precondition import distributed_shampoo as ds
    cfg = dict(compression_rank=k, block_size=8, frequent_directions=True,
               reuse_preconditioner=True, beta2=b, matrix_epsilon=0.0,
               best_effort_shape_interpretation=False, graft_type=1)
    opt = dsh.build_opt(cfg, "pmap" if task.get("pmap") else "rep")
    case0 = {"impl": "distributed_shampoo (frequent_directions)", "k": k,
             "b": b, "pmap_devices": task.get("pmap", 0)}

    def sketches(state):
      out = []
      for pc in state.stats["c"].preconditioners:
        V, l, inv, const, t, hz = [np.asarray(x) for x in
                                   ds._fd_low_rank_unpack(pc, k)]
        out.append((V, l, t, inv, None))
      return out
    p = 2 * nd
  else:
    from mc.props import c07
    cfg = dict(second_order_type="sketchy", sketchy_rank=k,
               second_moment_decay=b, merge_dims=2, grafting_type="sgd",
               momentum_decay=0.0)
    opt = c07.build_tearfree(cfg)
    case0 = {"impl": "tearfree (sketchy)", "k": k, "b": b}

    def sketches(state):
      so = state[0].direction[1]
      out = []
      for a in so.sketches["c"].axes:
        l = np.asarray(a.eigvals, np.float64) ** 2
        out.append((np.asarray(a.eigvecs), l, float(a.tail),
                    np.asarray(a.inv_eigvals), float(a.inv_tail)))
      return out
    p = 2 * nd
  upd = jax.jit(opt.update)
  s0 = opt.init(params)
  if task.get("pmap"):
    D = task["pmap"]
    rep = lambda t: jax.tree_util.tree_map(
        lambda x: jnp.stack([jnp.asarray(x)] * D), t)
    pupd = jax.pmap(opt.update, axis_name="batch", devices=jax.devices()[:D])
    prep = rep(params)
    s0 = rep(s0)
    upd = lambda g, st, _: pupd(rep(g), st, prep)
    sk_one = sketches
    sketches = lambda st: sk_one(jax.tree_util.tree_map(lambda x: x[D - 1],
                                                        st))
  orc = SketchOracle(acc, "C09|" + task["name"], case0, False)
  frontier = [(s0, [np.zeros((d, d)) for d in sh], ())]
  acc.states += 1
  for _ in range(task["depth"]):
    nxt = []
    for s, Cs, hist in frontier:
      sk0 = sketches(s)
      for e in evs:
        g = ev[e]
        _, s2 = upd({"c": jnp.asarray(g)}, s, params)
        acc.transitions += 1
        if e != "zero":
          acc.nontrivial += 1
        h2 = hist + (e,)
        sk1 = sketches(s2)
        C2 = []
        for ax in range(nd):
          G = np.moveaxis(g, ax, 0).reshape(sh[ax], -1).astype(np.float64)
          Cn = b * Cs[ax] + G @ G.T
          C2.append(Cn)
          V, l, t, inv, it = sk1[ax]
          lam = l + t
          eps = 1e-7 * (lam.max() if lam.size else 0.0) \
              if task["kind"] == "tf_public" else 0.0
          orc.case0 = dict(case0, axis=ax)
          orc.kf = {"impl": task["kind"],
                    "statistic_smaller_than_largest": bool(sh[ax] < max(sh))}
          orc.check(h2 + ("ax%d" % ax,), V, l, t, Cn,
                    (sk0[ax][0], sk0[ax][1], sk0[ax][2]), G, b, k, sh[ax],
                    inv=inv, inv_tail=it, p=p, eps=eps)
        acc.states += 1
        nxt.append((s2, C2, h2))
        acc.sample(dict(case0, history=list(h2)))
    frontier = nxt


def run_fd_factor(task, acc):
  """frequent_directions_update: R R^T equals the Gram matrix of the chosen
  axis, for every axis of tensors of rank 1..4 (depth-1 contract)."""
  import itertools
  import jax.numpy as jnp
  from precondition import distributed_shampoo as ds
  dims = [2, 3, 4] if task["tier"] == "quick" else [1, 2, 3, 4, 5]
  for rank in (1, 2, 3, 4):
    for sh in itertools.product(dims, repeat=rank):
      if rank == 4 and len(set(sh)) > 2:
        continue
      g = rng(3, "fdf", sh).randint(-8, 9, size=sh) / 4.0
      for ax in range(rank):
        acc.states += 1
        acc.transitions += 1
        acc.nontrivial += 1
        r = np.asarray(ds.frequent_directions_update(
            None, jnp.asarray(g), ax, 0.0, 0.0), np.float64)
        m = np.moveaxis(g, ax, 0).reshape(sh[ax], -1)
        want = m @ m.T
        if r.shape != want.shape or np.max(np.abs(r @ r.T - want)) > \
            1e-10 * max(np.max(np.abs(want)), 1.0):
          acc.outcome("viol_factor")
          acc.violation("C09|fd_factor|%s|ax%d" % (sh, ax),
                        "frequent_directions_update: R R^T differs from the "
                        "Gram matrix of axis %d for a gradient of shape %s" %
                        (ax, sh), {"shape": sh, "axis": ax})
        else:
          acc.outcome("factor_ok")
  acc.sample({"routine": "frequent_directions_update", "dims": dims})


def run_task(task):
  acc = Acc(task["name"])
  try:
    if task["kind"] == "ds_root":
      run_ds_root(task, acc)
    elif task["kind"] == "tf_axis":
      run_tf_axis(task, acc)
    elif task["kind"] == "fd_factor":
      run_fd_factor(task, acc)
    elif task["kind"] == "oco":
      from mc.props import c16
      r = c16.run_task(task)
      for v in r["violations"]:
        v["sig"] = v["sig"].replace("C16|", "C09|oco|")
      return r
    else:
      run_public(task, acc)
  except Exception as e:  # pylint: disable=broad-except
    import traceback
    acc.violation("C09|%s|exception" % task["name"], "%s: %s" %
                  (type(e).__name__, str(e)[:300]),
                  {"trace": traceback.format_exc()[-1500:]})
  return acc.result()
