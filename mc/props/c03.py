"""C03 - a preconditioner is replaced only by a verified root; failures never
leak.

(a) Engine B: TLC explores RefreshProtocol with the event classes {ok, nan}
    (at most MAXF poisoned gradients per history); every path is replayed on
    the real optimizer in replicated / pmap+int16 / sharded mode: a poisoned
    statistic must never reach the stored preconditioner.
(b) Engine A (mcx): BFS over all fault histories over
    {gA, g0, NaN, Inf, 2^40, 2^-40, 2^100} with at most f fault events, for the
    cross product mode x failure threshold x matrix epsilon x root method x
    preconditioner interval; oracle evaluated after every transition.
"""
import itertools

import numpy as np

from mc.lib import Acc, leaves_equal_bitwise, tree_hash, on_path

SHAPES = {"v": [3], "m": [2, 3], "u": [1]}   # u: a 1x1 statistic
FAULTS = ["nan", "inf", "huge", "tiny", "ovf"]
BENIGN = ["gA", "g0", "huge", "tiny"]       # update must stay finite
EVENTS = ["gA", "g0"] + FAULTS


def plan(tier, seed):
  del seed
  from mc import tlc
  tasks = []
  if tier == "quick":
    grid = dict(T=5, SS=[1, 2], PP=[1, 2], STARTS=[1],
                MODES=["rep", "quant", "sharded"], SCHEDS=[0],
                EVENTS=["ok", "nan"], MAXF=2)
    depth, maxf, x64s = 3, 2, [False, True]
  else:
    grid = dict(T=6, SS=[1, 2, 3], PP=[1, 2, 3], STARTS=[0, 2],
                MODES=["rep", "quant", "sharded"], SCHEDS=[0],
                EVENTS=["ok", "nan"], MAXF=3)
    depth, maxf, x64s = 4, 3, [False, True]
  graph, st = tlc.run(tabs={}, **grid)
  pst, ped = tlc.python_automaton_count(tabs={}, **grid)
  if (pst, ped) != (st["distinct"], st["edges"]):
    raise RuntimeError("explorer cross-check failed: %s vs %s" %
                       (st, (pst, ped)))
  model = {"tlc_distinct_states": st["distinct"], "tlc_edges": st["edges"],
           "python_automaton_states": pst, "python_automaton_edges": ped,
           "paths": 0, "grid": grid}
  for init in graph["inits"]:
    sub = tlc.subgraph(graph, init)
    n0 = sub["nodes"][init]
    npaths = tlc.count_paths(sub)
    model["paths"] += npaths
    tasks.append({"name": "B/%s/S%d/P%d/start%d" % (n0["mode"], n0["S"],
                                                    n0["P"], n0["start"]),
                  "kind": "replay", "sub": sub, "part": "engineB_" + n0["mode"],
                  "profile": {"x64": True}, "weight": npaths})
  for mode, thr, eps, eigh, P, x64 in itertools.product(
      ["rep", "quant", "sharded"], [0.0, 1e-30, 0.1, 1e30], [1e-6, 0.0],
      [False, True], [1, 2], x64s):
    if tier == "quick" and x64 and (thr in (1e-30,) or P == 2):
      continue
    tasks.append({
        "name": "A/%s/thr%g/eps%g/%s/P%d/%s" % (
            mode, thr, eps, "eigh" if eigh else "newton", P,
            "f64" if x64 else "f32"),
        "kind": "mcx", "mode": mode, "thr": thr, "eps": eps, "eigh": eigh,
        "P": P, "depth": depth, "maxf": maxf, "part": "engineA_" + mode,
        "profile": {"x64": x64}, "weight": 50})
  # float32 pmap over 3 devices: the 4 statistics are padded to 6 work items,
  # dealt out to the devices and gathered back before the accept/keep decision
  for thr, eps, eigh, P in itertools.product(
      [0.1] if tier == "quick" else [0.0, 0.1, 1e30], [1e-6, 0.0],
      [False, True], [1, 2]):
    tasks.append({
        "name": "A/pmap3/thr%g/eps%g/%s/P%d/f32" % (
            thr, eps, "eigh" if eigh else "newton", P),
        "kind": "mcx", "mode": "pmap3", "thr": thr, "eps": eps, "eigh": eigh,
        "P": P, "depth": depth, "maxf": maxf, "part": "engineA_pmap3",
        "profile": {"x64": False, "devices": 3}, "weight": 80})
  # jax_enable_x64 with thresholds that float32 rounds down (0.7, 0.01) and
  # up (0.1): the decision must not depend on the dtype the threshold is
  # compared in; interval 2 so that non-refresh steps occur
  for mode, thr in itertools.product(["rep", "quant", "sharded"],
                                     [0.7, 0.01]):
    tasks.append({
        "name": "A/%s/thr%g/eps1e-06/newton/P2/f64" % (mode, thr),
        "kind": "mcx", "mode": mode, "thr": thr, "eps": 1e-6, "eigh": False,
        "P": 2, "depth": depth, "maxf": maxf, "part": "engineA_" + mode,
        "profile": {"x64": True}, "weight": 50})
  # an infinite threshold (gate disabled) at interval 2: on non-refresh steps
  # the stored preconditioners must still keep their bits
  for mode in ["rep", "quant", "sharded"]:
    tasks.append({
        "name": "A/%s/thr1e39/eps1e-06/newton/P2/f32" % mode,
        "kind": "mcx", "mode": mode, "thr": 1e39, "eps": 1e-6,
        "eigh": False, "P": 2, "depth": depth, "maxf": 1,
        "part": "engineA_" + mode, "profile": {"x64": False}, "weight": 50})
  # SGD grafting (the graft step is the raw gradient): a zero preconditioner
  # (eigh root of zero statistics, ridge 0) meets a 2^40-scaled gradient
  for mode in ["rep", "sharded"]:
    tasks.append({
        "name": "A/%s/thr0.1/eps0/eigh/P1/f32/sgd" % mode,
        "kind": "mcx", "mode": mode, "thr": 0.1, "eps": 0.0, "eigh": True,
        "P": 1, "depth": depth, "maxf": maxf, "graft": 1,
        "part": "engineA_" + mode, "profile": {"x64": False}, "weight": 50})
  # all statistics 1x1 (block size 1): the root routine has a shortcut for it
  for mode, thr, eps in itertools.product(["rep", "quant", "sharded"],
                                          [0.1, 1e30], [1e-6, 0.0]):
    tasks.append({
        "name": "A/%s/thr%g/eps%g/newton/P1/f32/block1" % (mode, thr, eps),
        "kind": "mcx", "mode": mode, "thr": thr, "eps": eps, "eigh": False,
        "P": 1, "depth": depth, "maxf": maxf, "block": 1,
        "part": "engineA_" + mode, "profile": {"x64": False}, "weight": 50})
  return {
      "tasks": tasks, "model": model,
      "rule": "(a) every path of the TLC graph of RefreshProtocol with events "
              "{ok,nan}, <= MAXF nan; (b) every history over %s of length <= "
              "%d with <= %d fault events per (mode, threshold, epsilon, "
              "method, interval, dtype); states merged on bit-identical "
              "optimizer state; non-trivial = transition of a history that "
              "contains a fault event or a refresh" % (EVENTS, depth, maxf),
      "bounds": {"depth": depth, "max_faults": maxf, "T_model": grid["T"]},
      "assumptions": ["fault values are injected at one fixed entry of every "
                      "leaf", "one small tree with a square-free 2x3 leaf "
                      "(singular 3x3 statistic) and a vector"],
      "timeout": 3000,
  }


def run_replay(task, acc):
  from mc import replay
  sub = task["sub"]
  n0 = sub["nodes"][sub["init"]]
  case = {k: n0[k] for k in ("S", "P", "start", "mode")}
  rp = replay.DSReplayer(n0, SHAPES, {"block_size": 4}, {}, ["ok", "nan"])
  replay.replay_all_paths(acc, sub, rp, "C03|" + task["name"], case)


def run_mcx(task, acc):
  from mc import ds
  mode, thr, eps, eigh, P = (task["mode"], task["thr"], task["eps"],
                             task["eigh"], task["P"])
  cfg = dict(inverse_failure_threshold=thr, matrix_epsilon=eps, eigh=eigh,
             preconditioning_compute_steps=P, start_preconditioning_step=1,
             best_effort_shape_interpretation=False,
             block_size=task.get("block", 4),
             graft_type=task.get("graft", 3))
  rmode = {"rep": "rep", "quant": "pmap", "sharded": "sharded",
           "pmap3": "pmap"}[mode]
  if mode == "quant":
    cfg["best_effort_memory_usage_reduction"] = True
  runner = ds.Runner(cfg, SHAPES, rmode, ndev=3 if mode == "pmap3" else 1)
  alpha = ds.grad_trees(SHAPES, EVENTS, (0, task.get("block", 4)))
  pre = ["v", "m", "u"]
  case0 = {"mode": mode, "threshold": thr, "matrix_epsilon": eps,
           "eigh": eigh, "interval": P, "x64": task["profile"]["x64"]}
  sigbase = "C03|" + task["name"]

  def precs(state):
    """per statistic: list of raw leaves; and reported errors."""
    out, errs = [], []
    for n in pre:
      ls = runner.leaf_stats(state, n)
      if mode == "sharded":
        out += [[p] for p in ls["preconditioners"]]
      else:
        out += ls["raw_preconditioners"]
      m = ls["metrics"]
      e = np.asarray(m.inverse_pth_root_errors)
      if rmode == "pmap":
        e = e[0]
      errs += list(np.asarray(e, np.float64).reshape(-1))
    return out, errs

  s0 = runner.init()
  frontier = [(s0, ())]
  seen = {tree_hash(runner.host(s0))}
  acc.states += 1
  for _ in range(task["depth"]):
    nxt = []
    for s, hist in frontier:
      nf = sum(1 for h in hist if h in FAULTS)
      for ev in EVENTS:
        if ev in FAULTS and nf >= task["maxf"]:
          continue
        if not on_path(task, hist + (ev,)):
          continue
        t = len(hist)
        h2 = hist + (ev,)
        try:
          u, s2 = runner.step(s, alpha[ev])
        except Exception as e:  # pylint: disable=broad-except
          acc.violation(sigbase + "|exc", "update raised %s: %s" %
                        (type(e).__name__, str(e)[:200]),
                        dict(case0, history=list(h2)))
          return
        acc.transitions += 1
        refresh = (t % P == 0)
        if refresh or any(h in FAULTS for h in h2):
          acc.nontrivial += 1
        p1, _ = precs(s)
        p2, e2 = precs(s2)

        def viol(kind, what):
          acc.outcome("viol_%s/%s/%s/eps%g/thr%g/%s" % (
              kind, mode, "eigh" if eigh else "newton", eps, thr,
              "f64" if task["profile"]["x64"] else "f32"))
          pattern = "other"
          if "tiny" in h2 and "huge" in h2 and \
              h2.index("tiny") < len(h2) - 1 - h2[::-1].index("huge") and \
              all(h in BENIGN for h in h2):
            pattern = "tiny_then_huge"
          acc.violation("%s|%s|%s" % (sigbase, ",".join(h2), kind), what,
                        dict(case0, history=list(h2), kind=kind),
                        kf={"kind": kind, "mode": mode,
                            "method": "eigh" if eigh else "newton",
                            "eps": "%g" % eps, "thr": "%g" % thr,
                            "pattern": pattern})

        for k, (a, b, err) in enumerate(zip(p1, p2, e2)):
          same = len(a) == len(b) and all(
              leaves_equal_bitwise(x, y) for x, y in zip(a, b))
          verified = np.isfinite(err) and err < thr
          if not same:
            if not refresh:
              viol("changed_off_schedule", "preconditioner %d replaced on "
                   "non-refresh step %d" % (k, t))
            elif not verified:
              viol("unverified_root_stored", "preconditioner %d replaced on "
                   "step %d although the reported error %r is not finite "
                   "and below the threshold %g" % (k, t, err, thr))
            else:
              acc.outcome("replaced_verified")
          else:
            acc.outcome("kept_rejected" if refresh and not verified
                        else "kept")
          if not all(np.all(np.isfinite(x.astype(np.float64))) for x in b):
            viol("precond_nonfinite", "stored preconditioner %d is not "
                 "finite after step %d (reported error %r, threshold %g)" %
                 (k, t, err, thr))
        if all(h in BENIGN for h in h2):
          uh = runner.host(u)
          for n in SHAPES:
            if not np.all(np.isfinite(np.asarray(uh[n], np.float64))):
              viol("update_nonfinite", "update of %s is not finite for a "
                   "history of finite moderate gradients" % n)
              break
          else:
            acc.outcome("update_finite")
        key = tree_hash(runner.host(s2))
        if key in seen:
          acc.outcome("merged_states")
          continue
        seen.add(key)
        acc.states += 1
        nxt.append((s2, h2))
        acc.sample(dict(case0, history=list(h2), errors=e2))
    frontier = nxt


def run_task(task):
  acc = Acc(task["name"])
  try:
    if task["kind"] == "replay":
      run_replay(task, acc)
    else:
      run_mcx(task, acc)
  except Exception as e:  # pylint: disable=broad-except
    import traceback
    acc.violation("C03|%s|exception" % task["name"], "harness/optimizer "
                  "raised %s: %s" % (type(e).__name__, str(e)[:300]),
                  {"trace": traceback.format_exc()[-1500:]})
  return acc.result()
