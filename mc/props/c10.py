"""C10 - low-rank packed preconditioner agrees with the dense matrix it denotes.

Depth-1 exhaustive enumeration (x64): every admissible (d, r) with |r|+2 < d
<= D, both signs, paddings; pack/unpack round trips on distinguishable
values; _low_rank_root on spectra with a gap at the cut for p in {2,4,6,8};
Preconditioner.preconditioned_grad with mixed full and packed preconditioners
on gradients of rank 1..3, every axis, has_zeros set/unset.
"""
import itertools

import numpy as np

from mc.lib import Acc, rng


def orth(d, r, salt):
  rs = rng(0, "c10", d, r, salt)
  q, _ = np.linalg.qr(rs.uniform(-1, 1, size=(d, d)))
  return q[:, :r]


def plan(tier, seed):
  D = 8 if tier == "quick" else 10
  R = 3 if tier == "quick" else 4
  tasks = []
  for d in range(4, D + 1):
    for r in range(1, R + 1):
      if r + 2 >= d:
        continue
      tasks.append({"name": "pack/d%d/r%d" % (d, r), "kind": "pack", "d": d,
                    "r": r, "profile": {"x64": True}, "part": "pack"})
      for sign in (1, -1):
        tasks.append({"name": "root/d%d/r%d" % (d, sign * r), "kind": "root",
                      "d": d, "r": sign * r, "seed": seed,
                      "profile": {"x64": True}, "part": "root"})
  for r in ([1, 2] if tier == "quick" else [1, 2, 3]):
    tasks.append({"name": "apply/r%d" % r, "kind": "apply", "r": r,
                  "tier": tier, "profile": {"x64": True}, "part": "apply"})
  # through the public optimizer: parameters with an axis exactly at, just
  # above and just below the admissibility boundary d = |r| + 2
  for r in (1, -1, 2, -2):
    tasks.append({"name": "public/r%d" % r, "kind": "public", "r": r,
                  "profile": {"x64": True}, "part": "public"})
  return {
      "tasks": tasks,
      "rule": "every (d, r) with |r|+2 < d <= %d, |r| <= %d, both signs, "
              "paddings {0,3}; 3 gapped spectra x scales {1, 2^-6, 16} x 3 "
              "bases x p in {2,4,6,8} x 3 ridge settings (absolute, relative "
              "1e-12, relative 1e-2 with the ridge recovered from the "
              "returned constant); every gradient shape over dims {3,5,6} of "
              "rank 1..3 with every has_zeros pattern; non-trivial = all" %
              (D, R),
      "bounds": {"D": D, "R": R},
      "assumptions": ["spectra have a gap at the cut (otherwise the denoted "
                      "matrix is not unique)", "jax_enable_x64"],
  }


def run_pack(acc, d, r):
  import jax.numpy as jnp
  from precondition import distributed_shampoo as ds
  for has_zeros in (False, True):
    acc.states += 1
    acc.nontrivial += 1
    acc.transitions += 2
    v = (np.arange(d * r, dtype=np.float64).reshape(d, r) + 1) / 8
    fe = 100 + np.arange(r, dtype=np.float64)
    ie = 200 + np.arange(r, dtype=np.float64)
    c, t = 300.5, 400.25
    sig = "C10|pack|d%d|r%d|z%d" % (d, r, has_zeros)
    case = {"d": d, "r": r, "has_zeros": has_zeros}
    try:
      packed = ds._fd_low_rank_pack(jnp.asarray(v), jnp.asarray(fe),
                                    jnp.asarray(ie), c, t, has_zeros, r)
      got = ds._fd_low_rank_unpack(packed, r)
      got_neg = ds._fd_low_rank_unpack(packed, -r)
    except Exception as e:  # pylint: disable=broad-except
      acc.violation(sig, "pack/unpack raised %r" % e, case)
      continue
    want = (v, fe, ie, c, t, has_zeros)
    ok = all(np.array_equal(np.asarray(a), np.asarray(b))
             for a, b in zip(got, want)) and \
        all(np.array_equal(np.asarray(a), np.asarray(b))
            for a, b in zip(got_neg, want))
    if not ok or tuple(packed.shape) != (d, r + 2):
      acc.outcome("viol_unpack_pack")
      acc.violation(sig + "|up", "unpack(pack(fields)) != fields", case)
      continue
    # pack(unpack(M)) == M for M a valid packed matrix
    re = ds._fd_low_rank_pack(*[jnp.asarray(x) for x in got[:3]], got[3],
                              got[4], got[5], r)
    if not np.array_equal(np.asarray(re), np.asarray(packed)):
      acc.outcome("viol_pack_unpack")
      acc.violation(sig + "|pu", "pack(unpack(M)) != M", case)
      continue
    # the 4-field variant used by the non-FD path
    p2 = ds._low_rank_pack(jnp.asarray(v), jnp.asarray(ie), c, r)
    v2, e2, c2, z2 = ds._low_rank_unpack(p2, r)
    if not (np.array_equal(np.asarray(v2), v) and
            np.array_equal(np.asarray(e2), ie) and float(c2) == c and
            not bool(z2)):
      acc.outcome("viol_low_rank_pack")
      acc.violation(sig + "|lr", "_low_rank_unpack(_low_rank_pack) differs",
                    case)
      continue
    acc.outcome("pack_ok")
    acc.sample(dict(case, packed_shape=list(packed.shape)))


def spectra(d, r):
  """Spectra (descending) with a gap at the cut for |r| kept directions."""
  k = abs(r)
  out = []
  if r > 0:   # keep the k largest
    top = [1.0 - 0.1 * i for i in range(k)]
    rest_sets = [
        [0.3 - 0.02 * i for i in range(d - k)],
        [0.05] * (d - k),
        [0.2 * 0.5**i for i in range(d - k)],
    ]
  else:       # keep the k smallest
    top = [0.02 + 0.01 * i for i in range(k)][::-1]
    rest_sets = [
        [1.0 - 0.05 * i for i in range(d - k)],
        [0.7] * (d - k),
        [1.0 * 0.8**i for i in range(d - k)],
    ]
  for rest in rest_sets:
    lam = (top + rest) if r > 0 else (rest + top)
    out.append(np.asarray(sorted(lam, reverse=True)))
  return out


def run_root(acc, d, r, seed):
  import jax
  import jax.numpy as jnp
  from precondition import distributed_shampoo as ds
  k = abs(r)
  bases = {"I": np.eye(d), "H": np.eye(d) - 2 * np.outer(
      np.ones(d), np.ones(d)) / d, "G": orth(d, d, seed)}
  for pad in (0, 3):
    n = d + pad

    def call(mat, p, eps, rel, n=n):
      return ds._low_rank_root(mat, p, compression_rank=r, ridge_epsilon=eps,
                               relative_matrix_epsilon=rel, padding_start=d)
    fn = jax.jit(call, static_argnums=(2, 3))
    for si, lam0 in enumerate(spectra(d, r)):
     # scale 1 and scales with the largest eigenvalue well below / above 1:
     # with the relative ridge the result must scale as scale^(-1/p)
     for scale in (1.0, 2.0**-6, 16.0):
      lam = lam0 * scale
      for bname, q in bases.items():
        if scale != 1.0 and bname == "H":
          continue
        a = (q * lam) @ q.T
        a = (a + a.T) / 2
        full = np.zeros((n, n))
        full[:d, :d] = a
        if pad:
          full[d:, d:] = np.eye(pad) * 7.0   # garbage in the padding
          full[:d, d:] = 0.5
          full[d:, :d] = 0.5
        for p in (2, 4, 6, 8):
          # relative ridge: the routine scales epsilon by a power-iteration
          # estimate it does not report (a Rayleigh quotient: never above the
          # largest eigenvalue, observed 0.4% low on slowly separating
          # spectra).  epsilon = 1e-12 keeps the denoted matrix insensitive
          # to that estimate (effect <= 1e-10).  With epsilon = 1e-2 the one
          # unknown scalar (the ridge actually added) is recovered from the
          # returned constant by bisection, must lie in [0.5, 1] * epsilon *
          # lambda_max (the estimate stops early when the two leading
          # eigenvalues are close: 6% low observed for a ratio of 0.9), and
          # the whole denoted matrix must then be the exact root for that
          # ridge.
          settings = ((1e-12, True, False), (1e-3, False, False),
                      (1e-2, True, True))
          for eps, rel, fit in settings:
            if scale != 1.0 and eps == 1e-12:
              continue
            acc.states += 1
            acc.nontrivial += 1
            acc.transitions += 1
            sig = "C10|root|d%d|r%d|pad%d|s%d|x%g|%s|p%d|e%g" % (
                d, r, pad, si, scale, bname, p, eps)
            case = {"d": d, "r": r, "padding": pad, "spectrum": lam.tolist(),
                    "basis": bname, "p": p, "eps": eps, "relative": rel}
            try:
              val, metrics = fn(jnp.asarray(full), p, eps, rel)
              val = np.asarray(val)
            except Exception as e:  # pylint: disable=broad-except
              acc.violation(sig, "_low_rank_root raised %s: %s" %
                            (type(e).__name__, str(e)[:200]), case)
              continue
            vecs, ie, c, z = ds._low_rank_unpack(jnp.asarray(val), r)
            vecs = np.asarray(vecs)[:d]
            ie = np.asarray(ie)
            c = float(c)
            dense = c * (np.eye(d) - vecs @ vecs.T) + (vecs * ie) @ vecs.T
            w0, u = np.linalg.eigh(a)
            # w ascending: retained = largest k (r>0) or smallest k (r<0)
            keep = np.zeros(d, bool)
            if r > 0:
              keep[-k:] = True
            else:
              keep[:k] = True

            def const_of(rho):
              return float(np.mean((w0[~keep] + rho) ** (-1.0 / p)))
            if fit:
              lo, hi = 0.5 * eps * lam[0], eps * lam[0] * (1 + 1e-9)
              if not const_of(hi) * (1 - 1e-9) <= c <= \
                  const_of(lo) * (1 + 1e-9):
                acc.outcome("viol_ridge_bracket")
                acc.violation(
                    sig + "|ridge", "constant %.9g of the packed root is not "
                    "the mean complement root for any ridge in [0.5,1] * "
                    "epsilon * lambda_max (admissible constants [%.9g, "
                    "%.9g])" % (c, const_of(hi), const_of(lo)), case)
                continue
              for _ in range(200):
                mid = (lo + hi) / 2
                if const_of(mid) > c:
                  lo = mid
                else:
                  hi = mid
              ridge = (lo + hi) / 2
              acc.extra["min_ridge_ratio"] = min(
                  acc.extra.get("min_ridge_ratio", 1.0),
                  ridge / (eps * lam[0]))
            else:
              ridge = eps * (lam[0] if rel else 1.0)
            rootv = (w0 + ridge) ** (-1.0 / p)
            vals = np.where(keep, rootv, rootv[~keep].mean())
            want = (u * vals) @ u.T
            err = np.max(np.abs(dense - want)) / np.max(np.abs(want))
            pad_leak = pad and np.max(np.abs(np.asarray(val)[d:, :k])) > 0
            if not err <= 1e-8 or bool(z):
              acc.outcome("viol_root")
              acc.violation(sig + "|dense", "denoted matrix differs from the "
                            "exact root with averaged complement: rel err "
                            "%.3g (has_zeros=%s)" % (err, bool(z)), case)
            elif pad_leak:
              acc.outcome("viol_pad")
              acc.violation(sig + "|pad", "eigenvectors leak into padding",
                            case)
            else:
              acc.outcome("root_fitted_ridge_ok" if fit else "root_ok")
            acc.sample(dict(case, rel_err=float(err)))


def run_root_zero_ridge(acc, d, r):
  """Ridge 0 and a diagonal statistic whose trailing unpadded coordinates are
  exactly zero (never-updated rows): the library's convention gives a zero
  eigenvalue the root value 0, and the constant is still the mean over *all*
  non-retained unpadded dimensions."""
  import jax
  import jax.numpy as jnp
  from precondition import distributed_shampoo as ds
  k = abs(r)
  if r < 0:
    return
  for pad in (0, 3):
    n = d + pad
    for nz in range(1, d - k):
      lam = np.asarray([1.0 - 0.1 * i for i in range(k)] +
                       [0.3 - 0.02 * i for i in range(d - k - nz)] +
                       [0.0] * nz)
      full = np.zeros((n, n))
      full[:d, :d] = np.diag(lam)
      if pad:
        full[d:, d:] = np.eye(pad) * 7.0
      for p in (2, 4):
        acc.states += 1
        acc.nontrivial += 1
        acc.transitions += 1
        sig = "C10|root0|d%d|r%d|pad%d|z%d|p%d" % (d, r, pad, nz, p)
        case = {"d": d, "r": r, "padding": pad, "spectrum": lam.tolist(),
                "p": p, "eps": 0.0, "relative": False}
        try:
          val, _ = ds._low_rank_root(
              jnp.asarray(full), p, compression_rank=r, ridge_epsilon=0.0,
              relative_matrix_epsilon=False, padding_start=d)
          val = np.asarray(val)
        except Exception as e:  # pylint: disable=broad-except
          acc.violation(sig, "_low_rank_root raised %s: %s" %
                        (type(e).__name__, str(e)[:200]), case)
          continue
        vecs, ie, c, z = ds._low_rank_unpack(jnp.asarray(val), r)
        vecs = np.asarray(vecs)[:d]
        dense = float(c) * (np.eye(d) - vecs @ vecs.T) + \
            (vecs * np.asarray(ie)) @ vecs.T
        rootv = np.where(lam > 0, np.where(lam > 0, lam, 1.0) ** (-1.0 / p),
                         0.0)
        vals = rootv.copy()
        vals[k:] = rootv[k:].mean()
        want = np.diag(vals)
        err = np.max(np.abs(dense - want)) / np.max(np.abs(want))
        if not err <= 1e-8:
          acc.outcome("viol_root_zero_ridge")
          acc.violation(sig + "|dense", "ridge 0, %d exactly-zero unpadded "
                        "eigenvalues: denoted matrix differs from the root "
                        "with the complement averaged over the unpadded "
                        "dimensions: rel err %.3g (constant %.9g, expected "
                        "%.9g)" % (nz, err, float(c), vals[-1]), case)
        else:
          acc.outcome("root_zero_ridge_ok")


def run_apply(acc, r, tier):
  import jax.numpy as jnp
  from precondition import distributed_shampoo as ds
  dims = [3, 5, 6] if r < 3 else [3, 6, 7]
  for rank in (1, 2, 3):
    for sh in itertools.product(dims, repeat=rank):
      if rank == 3 and tier == "quick" and len(set(sh)) == 1 and sh[0] == 3:
        continue
      g = rng(1, "c10g", sh).uniform(-1, 1, size=sh)
      pc = ds.Preconditioner(jnp.asarray(g), 16, 16, False,
                             ds.PreconditionerType.ALL, r)
      shapes = pc.shapes_for_preconditioners()
      comp_axes = [i for i, s in enumerate(shapes) if s[0] != s[1]]
      for flags in itertools.product([False, True], repeat=len(comp_axes)):
        acc.states += 1
        acc.nontrivial += 1
        acc.transitions += 1
        sig = "C10|apply|%s|r%d|%s" % (sh, r, flags)
        case = {"grad_shape": sh, "r": r, "compressed_axes": comp_axes,
                "has_zeros": list(flags)}
        packed, dense = [], []
        for ax, s in enumerate(shapes):
          d = s[0]
          if s[0] == s[1]:
            m = rng(2, "c10m", sh, ax).uniform(-1, 1, size=(d, d))
            m = (m + m.T) / 2
            packed.append(jnp.asarray(m))
            dense.append(m)
          else:
            v = orth(d, r, (sh, ax))
            e = 0.5 + np.arange(r) * 0.75
            c = 0.3 + 0.1 * ax
            flag = flags[comp_axes.index(ax)]
            packed.append(ds._fd_low_rank_pack(
                jnp.asarray(v), jnp.zeros(r), jnp.asarray(e), c, 0.0, flag,
                r))
            dense.append(np.eye(d) if flag else
                         c * (np.eye(d) - v @ v.T) + (v * e) @ v.T)
        try:
          got = np.asarray(pc.preconditioned_grad(jnp.asarray(g), packed))
        except Exception as e:  # pylint: disable=broad-except
          acc.violation(sig, "preconditioned_grad raised %s: %s" %
                        (type(e).__name__, str(e)[:200]), case)
          continue
        want = g
        for ax, m in enumerate(dense):
          want = np.moveaxis(np.tensordot(m, want, axes=[[1], [ax]]), 0, ax)
        err = np.max(np.abs(got - want)) / max(np.max(np.abs(want)), 1e-300)
        if got.shape != want.shape or not err <= 1e-12:
          acc.outcome("viol_apply")
          acc.violation(sig + "|dense", "compressed application differs from "
                        "the dense matrices: rel err %.3g" % err, case)
        else:
          acc.outcome("apply_ok")
        acc.sample(dict(case, rel_err=float(err)))


def run_public(acc, r):
  """distributed_shampoo(compression_rank=r) on matrices with an axis at the
  boundary: an axis with |r|+2 >= d keeps a dense preconditioner, which must
  be the exact inverse root of the stored statistic; an axis with |r|+2 < d
  stores the [d, |r|+2] packed root, which must denote the exact root with
  the complement averaged (when the spectrum has a gap at the cut)."""
  from mc import ds as dsr
  from precondition import distributed_shampoo as ds
  k = abs(r)
  b = k + 2
  for sh in [(8, b), (b, 8), (b + 1, 8), (8, b - 1), (b, b + 3)]:
    cfg = {"compression_rank": r, "block_size": 16, "beta1": 0.0,
           "beta2": 1.0, "graft_type": 1, "nesterov": False,
           "best_effort_shape_interpretation": False,
           "start_preconditioning_step": 1}
    shapes = {"w": list(sh)}
    case0 = {"shape": list(sh), "r": r}
    sig0 = "C10|public|%s|r%d" % (sh, r)
    try:
      runner = dsr.Runner(cfg, shapes, "rep")
      st = runner.init()
      alpha = dsr.grad_trees(shapes, ["gA", "gB", "gSeed"], (0,), 0)
      for ev in ("gA", "gB", "gSeed"):
        _, st = runner.step(st, alpha[ev])
    except Exception as e:  # pylint: disable=broad-except
      acc.states += 1
      if "too small for compression_rank" in str(e):
        acc.outcome("rejected_explicitly")
        continue
      acc.violation(sig0, "optimizer raised %s: %s" %
                    (type(e).__name__, str(e)[:200]), case0)
      continue
    ls = runner.leaf_stats(st, "w")
    for ax, (stat, pre) in enumerate(zip(ls["statistics"],
                                         ls["preconditioners"])):
      acc.states += 1
      acc.nontrivial += 1
      acc.transitions += 1
      d = sh[ax]
      stat = np.asarray(stat, np.float64)
      pre = np.asarray(pre, np.float64)
      case = dict(case0, axis=ax, d=d)
      sig = "%s|ax%d" % (sig0, ax)
      w0, u = np.linalg.eigh((stat + stat.T) / 2)
      ridge = 1e-6 * max(w0[-1], 1e-6)
      rootv = (np.maximum(w0, 0) + ridge) ** (-1.0 / 4)
      if not k + 2 < d:
        want = (u * rootv) @ u.T
        if pre.shape != (d, d):
          acc.outcome("viol_public_shape")
          acc.violation(sig, "axis of size %d is not admissible for rank %d "
                        "but its preconditioner has shape %s" %
                        (d, r, pre.shape), case)
          continue
        err = np.max(np.abs(pre - want)) / np.max(np.abs(want))
        if not err <= 2e-3:
          acc.outcome("viol_public_dense")
          acc.violation(sig, "axis of size %d (not admissible for rank %d): "
                        "stored preconditioner differs from the exact "
                        "inverse root of the stored statistic: rel err %.3g"
                        % (d, r, err), case)
        else:
          acc.outcome("public_dense_ok")
        continue
      if pre.shape != (d, k + 2):
        acc.outcome("viol_public_shape")
        acc.violation(sig, "admissible axis of size %d: packed preconditioner "
                      "has shape %s, not [%d, %d]" % (d, pre.shape, d, k + 2),
                      case)
        continue
      keep = np.zeros(d, bool)
      if r > 0:
        keep[-k:] = True
        gap = (w0[-k] - w0[-k - 1]) / max(w0[-1], 1e-300)
      else:
        keep[:k] = True
        gap = (w0[k] - w0[k - 1]) / max(w0[-1], 1e-300)
      if gap < 1e-3:
        acc.outcome("public_no_gap_skipped")
        continue
      import jax.numpy as jnp
      vecs, ie, c, z = ds._low_rank_unpack(jnp.asarray(pre), r)
      vecs, ie, c = np.asarray(vecs), np.asarray(ie), float(c)
      dense = c * (np.eye(d) - vecs @ vecs.T) + (vecs * ie) @ vecs.T
      vals = np.where(keep, rootv, rootv[~keep].mean())
      want = (u * vals) @ u.T
      err = np.max(np.abs(dense - want)) / np.max(np.abs(want))
      if not err <= 5e-3 or bool(z):
        acc.outcome("viol_public_packed")
        acc.violation(sig, "admissible axis of size %d: the stored packed "
                      "root does not denote the exact root with averaged "
                      "complement: rel err %.3g (has_zeros=%s)" %
                      (d, err, bool(z)), case)
      else:
        acc.outcome("public_packed_ok")
      acc.sample(dict(case, rel_err=float(err)))


def run_task(task):
  acc = Acc(task["name"])
  if task["kind"] == "public":
    run_public(acc, task["r"])
  elif task["kind"] == "pack":
    run_pack(acc, task["d"], task["r"])
  elif task["kind"] == "root":
    run_root(acc, task["d"], task["r"], task["seed"])
    run_root_zero_ridge(acc, task["d"], task["r"])
  else:
    run_apply(acc, task["r"], task["tier"])
  return acc.result()
