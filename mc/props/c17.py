"""C17 - Sketchy memory reallocation respects the memory budget.

Alphabet: synthetic optimizer states with n sketched axes, each axis a
(dimension, score) pair from small pools, arranged into layers (every axis its
own layer / axes paired into 2-axis layers), base rank 1..dim+1, three scoring
rules.  Every instance of the bounded space is passed to the real
`create_redist_dict(states=...)` (depth-1 exploration: state = canonical
input, transition = one call).  Oracle: no exception; every sketched axis gets
an integer rank in [1, dim]; per equal-dimension group the ranks sum to at
most group size x base rank.
"""
import itertools

from mc.lib import Acc

SCORES_Q = [0.0, 1e-6, 0.3, 1.0, 2.0, 3.0, 7.0, 1000.0]
DIMS = [2, 3, 4, 6]
RULES = ["sketch_trace", "tail_rho", "sketch_intrinsic_rank", "ggt_trace",
         "ggt_intrinsic_rank"]


def _axis_entry(rule, dim, score):
  """A per-axis sketch record whose score under `rule` equals `score`."""
  import jax.numpy as jnp
  if rule == "sketch_trace":
    eig = [score]
  elif rule == "sketch_intrinsic_rank":
    # sum/max == score for score >= 1; scores < 1 are not attainable (use a
    # single eigenvalue -> intrinsic rank 1, or all-zero -> 0)
    if score <= 0:
      eig = [0.0, 0.0]
    elif score < 1:
      eig = [score]
    else:
      k = int(score)
      eig = [1.0] * k + ([score - k] if score > k else [])
  else:
    eig = [1.0]
  ent = {"eigvals": jnp.array(eig, dtype=jnp.float32),
         "tail": jnp.array(score, dtype=jnp.float32), "dim": dim}
  if rule == "ggt_trace":
    ent["ema_ggt"] = jnp.diag(jnp.array([score] + [0.0] * (dim - 1),
                                        dtype=jnp.float32))
  elif rule == "ggt_intrinsic_rank":
    # trace / spectral norm: k ones on the diagonal give rank k (>= 1)
    k = max(1, min(dim, int(round(score)) if score >= 1 else 1))
    ent["ema_ggt"] = jnp.diag(jnp.array([1.0] * k + [0.0] * (dim - k),
                                        dtype=jnp.float32))
  return ent


def _true_score(rule, score):
  if rule == "sketch_intrinsic_rank":
    if score <= 0:
      return 0.0
    if score < 1:
      return 1.0
  return score


def build_state(rule, axes, layout, averaged=False, rev=False):
  """axes: list of (dim, score); layout 'single' or 'paired'.  With
  averaged=True two checkpoints are returned whose scores average to the
  requested ones (2s and 0).  rev=True names the layers in the opposite
  order: the routine walks a Python set of layer names, so the order in
  which groups and tied scores are visited follows the names."""
  if averaged:
    hi = build_state(rule, [(d, 2 * s) for d, s in axes], layout, rev=rev)[0]
    lo = build_state(rule, [(d, 0.0) for d, s in axes], layout, rev=rev)[0]
    return (hi, lo)
  sketches = {}
  for i, (d, s) in enumerate(axes):
    layer, ax = locate(layout, i, len(axes), rev)
    sketches.setdefault(layer, {"kernel": {"axes": {}}})["kernel"]["axes"][
        str(ax)] = _axis_entry(rule, d, s)
  return ({"inner_state": {"0": {"direction": {"1": {"sketches": sketches}}}}},)


def locate(layout, i, n=0, rev=False):
  if layout == "single":
    return "L%d" % ((n - 1 - i) if rev else i), 0
  nl = (n + 1) // 2
  return "L%d" % ((nl - 1 - i // 2) if rev else i // 2), i % 2


def check_instance(acc, rule, axes, layout, base_rank, averaged=False,
                   rev=False):
  from precondition.tearfree import reallocation
  case = {"rule": rule, "axes": [list(a) for a in axes], "layout": layout,
          "base_rank": base_rank, "running_average": averaged,
          "reversed_names": rev}
  sig = "C17|%s|%s|%s|%d|%d|%d" % (rule, axes, layout, base_rank, averaged,
                                   rev)
  acc.transitions += 1
  states = build_state(rule, axes, layout, averaged, rev)
  try:
    res = reallocation.create_redist_dict("", [-1], rule, averaged, base_rank,
                                          states)
  except Exception as e:  # pylint: disable=broad-except
    acc.outcome("exception")
    acc.violation(sig, "create_redist_dict raised %s: %s" %
                  (type(e).__name__, str(e)[:200]), case)
    return
  groups = {}
  bad = None
  for i, (d, _) in enumerate(axes):
    layer, ax = locate(layout, i, len(axes), rev)
    r = res[layer]["kernel"][ax]
    try:
      is_int = (int(r) == r) and not isinstance(r, (float, bool))
    except Exception:  # pylint: disable=broad-except
      is_int = False
    if not is_int:
      bad = "rank %r of axis %d is not an integer" % (r, i)
      break
    if not 1 <= int(r) <= d:
      bad = "rank %d of axis %d outside [1,%d]" % (int(r), i, d)
      break
    groups.setdefault(d, []).append(int(r))
  if bad is None:
    for d, ranks in groups.items():
      if sum(ranks) > len(ranks) * base_rank:
        bad = ("group dim=%d: ranks %s sum %d > budget %d x %d" %
               (d, ranks, sum(ranks), len(ranks), base_rank))
        break
  if bad:
    acc.outcome("over_budget_or_range")
    acc.violation(sig, bad, dict(case, result=str(res)))
  else:
    tight = all(sum(r) == min(len(r) * base_rank, len(r) * d)
                for d, r in groups.items())
    acc.outcome("ok_tight" if tight else "ok_slack")
  acc.sample(dict(case, result=str(res)))


def _instances(dims_choice, n, scores):
  """n axes, dims drawn from dims_choice (tuple of allowed dims)."""
  for dims in itertools.combinations_with_replacement(dims_choice, n):
    for sc in itertools.product(scores, repeat=n):
      # canonical: within equal dims, scores sorted (axis order irrelevant
      # for the property; ties in the sort are still exercised)
      ok = True
      for i in range(n - 1):
        if dims[i] == dims[i + 1] and sc[i] > sc[i + 1]:
          ok = False
          break
      if ok:
        yield tuple(zip(dims, sc))


def plan(tier, seed):
  del seed  # the space is enumerated completely; nothing is drawn
  tasks = []
  if tier == "quick":
    maxn, scores, mixed = 3, SCORES_Q, [(2, 3), (3, 6)]
  else:
    maxn, scores, mixed = 4, SCORES_Q, [(2, 3), (3, 4), (4, 6), (2, 6), (3, 6)]
  for rule in RULES:
    for d in DIMS:
      for n in range(1, maxn + 1):
        k = max(1, len(scores) ** n // 150)
        for c in range(k):
          tasks.append({"name": "%s/d%d/n%d/c%d" % (rule, d, n, c),
                        "rule": rule, "dims": [d], "n": n, "scores": scores,
                        "chunk": [c, k], "part": "one_group",
                        "weight": len(scores) ** n // k})
    for dd in mixed:
      for n in range(2, maxn + 1):
        k = max(1, len(scores) ** n // 100)
        for c in range(k):
          tasks.append({"name": "%s/d%s/n%d/c%d" % (rule, dd, n, c),
                        "rule": rule, "dims": list(dd), "n": n,
                        "scores": scores, "chunk": [c, k],
                        "mixed_only": True, "part": "two_groups",
                        "weight": len(scores) ** n // k})
  # float32-adversarial sub-lattice: one dominant score and several scores
  # around its float32 ulp (6e-5 at 1000), 4 and 5 axes in one group
  adv = [1000.0, 0.125, 5e-5, 3e-5, 1e-5]
  for rule in ["sketch_trace", "tail_rho"]:
    for d in [4, 6]:
      for n in [4, 5] if tier != "quick" else [4]:
        tasks.append({"name": "%s/adv/d%d/n%d" % (rule, d, n), "rule": rule,
                      "dims": [d], "n": n, "scores": adv, "chunk": [0, 1],
                      "base_ranks": [2, 3, d], "layouts": ["single"],
                      "part": "float32_adversarial", "weight": 5 ** n})
  # float64-adversarial sub-lattice: the small scores vanish against the
  # dominant one even in double precision (ratio > 2^53), so the running
  # total of the remaining scores can reach exactly 0 while positive scores
  # are still waiting
  adv64 = [3000.0, 2e-14, 1.5e-14, 1e-14, 0.0]
  for rule in ["sketch_trace", "tail_rho"]:
    for d in [4, 16]:
      for n in [4, 5] if tier != "quick" else [4]:
        tasks.append({"name": "%s/adv64/d%d/n%d" % (rule, d, n), "rule": rule,
                      "dims": [d], "n": n, "scores": adv64, "chunk": [0, 1],
                      "base_ranks": [2, 3, 8, d], "layouts": ["single"],
                      "part": "float64_adversarial", "weight": 5 ** n})
  return {
      "tasks": tasks,
      "rule": "every (dims, scores) multiset of n axes x layout x layer naming "
              "{forward, reversed} x base rank "
              "1..max(dim)+1 x scoring rule; non-trivial = at least two axes "
              "in one group with different scores or base rank >= 2",
      "bounds": {"max_axes": maxn, "dims": DIMS, "scores": scores,
                 "rules": RULES},
      "assumptions": ["scores are produced through the real score_fn from "
                      "synthetic sketch records; checkpoints are not read"],
  }


def run_task(task):
  acc = Acc(task["name"])
  rule, n = task["rule"], task["n"]
  seen = set()
  c, k = task.get("chunk", [0, 1])
  for idx, axes in enumerate(_instances(tuple(task["dims"]), n,
                                        task["scores"])):
    if idx % k != c:
      continue
    if task.get("mixed_only") and len({d for d, _ in axes}) < 2:
      continue
    axes_true = tuple((d, s) for d, s in axes)
    for layout in task.get("layouts") or (
        ["single"] if n == 1 else ["single", "paired"]):
      for base_rank in task.get("base_ranks") or range(
          1, max(d for d, _ in axes) + 2):
        key = (rule, axes_true, layout, base_rank)
        if key in seen:
          continue
        seen.add(key)
        acc.states += 1
        if base_rank >= 2 or len({s for _, s in axes}) > 1:
          acc.nontrivial += 1
        check_instance(acc, rule, list(axes_true), layout, base_rank)
        if n > 1:
          acc.states += 1
          check_instance(acc, rule, list(axes_true), layout, base_rank,
                         rev=True)
        if base_rank == 2 and rule in ("sketch_trace", "tail_rho",
                                       "ggt_trace"):
          acc.states += 1
          acc.nontrivial += 1
          check_instance(acc, rule, list(axes_true), layout, base_rank, True)
  return acc.result()
