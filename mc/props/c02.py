"""C02 - Distributed Shampoo update equals the documented blocked-Shampoo math.

mcx: for every configuration within deviation k of the base configuration
(options that change the arithmetic), on two parameter trees (ranks 0..4),
replicated and sharded, BFS over all gradient histories {gA,gB,(g0)}^<=T
through the real update, lock-step with mc/ref/shampoo.py (float64).
"""
import itertools
import json

import numpy as np

from mc.lib import Acc, tree_hash, maxabs, on_path

TREES = {
    "T1": {"v": [3], "m": [2, 3]},
    "T2": {"s": [], "v": [5], "m": [4, 6], "t": [2, 3, 2]},
    "T3": {"w": [1, 3, 1, 2], "q": [2, 2, 2, 2]},
}

OPTIONS = [
    ("graft_type", [0, 2, 3, 4, 5, 6]),
    ("beta1", [0.0]),
    ("beta2", [1.0, 0.5]),
    ("nesterov", [False]),
    ("moving_average_for_momentum", [True]),
    ("weight_decay", [0.25]),
    ("decoupled_learning_rate", [False]),
    ("learning_rate", [{"sched": "lin"}]),
    ("block_size", [2, 3, 1]),
    ("best_effort_shape_interpretation", [False]),
    ("merge_small_dims_block_size", [4, 2]),
    ("precondtioner_type", [2, 3]),
    ("exponent_override", [2, 3]),
    ("start_preconditioning_step", [0, 3]),
    ("preconditioning_compute_steps", [2, 3]),
    ("statistics_compute_steps", [2, 3]),
    ("skip_preconditioning_rank_lt", [2]),
    ("skip_preconditioning_dim_size_gt", [4]),
    ("eigh", [True]),
    ("relative_matrix_epsilon", [False]),
    ("matrix_epsilon", [1e-3]),
    ("diagonal_epsilon", [1e-3]),
]

# second-level deviations that only make sense together with a first one
PAIRS = [
    {"weight_decay": 0.25, "decoupled_weight_decay": True},
    {"weight_decay": 0.25, "decoupled_weight_decay": True,
     "decoupled_learning_rate": False},
    {"graft_type": 3, "clip_by_scaled_gradient_norm": 0.5},
    {"graft_type": 3, "beta2": 1.0},
    {"graft_type": 2, "decoupled_learning_rate": False},
    {"learning_rate": {"sched": "half"}, "decoupled_learning_rate": False},
    {"best_effort_shape_interpretation": False, "precondtioner_type": 2},
    {"best_effort_shape_interpretation": False, "precondtioner_type": 3},
    {"best_effort_shape_interpretation": False, "block_size": 2},
    {"moving_average_for_momentum": True, "nesterov": False},
    {"beta2": 1.0, "eigh": True},
    {"start_preconditioning_step": 2, "preconditioning_compute_steps": 2},
    {"start_preconditioning_step": 0, "graft_type": 0},
    {"weight_decay": 0.25, "moving_average_for_momentum": True},
    {"exponent_override": 2, "precondtioner_type": 3},
    {"statistics_compute_steps": 2, "preconditioning_compute_steps": 3},
    {"statistics_compute_steps": 3, "preconditioning_compute_steps": 2},
]


def excluded(cfg):
  # graft NONE with a coupled learning rate: after warm-up nothing carries
  # the learning rate; the documentation does not define this combination.
  if cfg.get("graft_type", 1) == 0 and \
      cfg.get("decoupled_learning_rate", True) is False:
    return True
  return False


def configs(k):
  out = [{}]
  singles = []
  for name, alts in OPTIONS:
    for a in alts:
      singles.append({name: a})
  out += singles
  out += PAIRS
  if k >= 2:
    for a, b in itertools.combinations(singles, 2):
      if set(a) & set(b):
        continue
      c = dict(a)
      c.update(b)
      out.append(c)
  seen, res = set(), []
  for c in out:
    key = json.dumps(c, sort_keys=True)
    if key in seen or excluded(c):
      continue
    seen.add(key)
    res.append(c)
  return res


def cfg_name(c):
  return ",".join("%s=%s" % (k[:14], json.dumps(v) if isinstance(v, dict)
                             else v) for k, v in sorted(c.items())) or "base"


def plan(tier, seed):
  tasks = []
  if tier == "quick":
    k, depth, names, trees = 1, 4, ["gA", "gB"], ["T1", "T2"]
  else:
    k, depth, names, trees = 2, 4, ["gA", "gB"], ["T1", "T2"]
  cfgs = configs(k)
  for ci, c in enumerate(cfgs):
    ndev = len(c)
    for tr in trees:
      for mode in ["rep", "sharded"]:
        if tier != "quick" and ndev >= 2 and (mode == "sharded" or
                                              tr == "T1") \
            and c not in PAIRS:
          continue   # k=2 product: replicated on the larger tree
        d, nm = depth, names
        if tier != "quick" and ndev <= 1:
          d, nm = 5, ["gA", "gB", "g0"]
        tasks.append({"name": "%s|%s|%s" % (cfg_name(c), tr, mode),
                      "cfg": c, "tree": tr, "mode": mode, "depth": d,
                      "events": nm, "seed": seed,
                      "profile": {"x64": True}, "part": mode,
                      "weight": 3 if tr == "T2" else 1})
  # pmap over 2 (thorough: also 4) devices: the statistics are dealt out to
  # the devices for the root computation and gathered back, so every
  # structural option (number/size of statistics) is replayed in that mode
  # on the tree with the most statistics
  structural = ("block_size", "best_effort_shape_interpretation",
                "merge_small_dims_block_size", "precondtioner_type",
                "skip_preconditioning_rank_lt",
                "skip_preconditioning_dim_size_gt", "exponent_override",
                "eigh", "preconditioning_compute_steps")
  for c in cfgs:
    if len(c) > 1 and c not in PAIRS:
      continue
    if c and not (set(c) & set(structural)):
      continue
    for D, tr in ([(2, "T2"), (2, "T1")] if tier == "quick" else
                  [(2, "T2"), (4, "T2"), (2, "T1"), (3, "T1")]):
      # T1: 3 statistics of sizes 2, 3, 3 - padded to a multiple of D, the
      # devices hold statistics of different sizes at the same slot
      tasks.append({"name": "%s|%s|pmap%d" % (cfg_name(c), tr, D), "cfg": c,
                    "tree": tr, "mode": "pmap", "ndev": D,
                    "depth": 3 if tier == "quick" else 4,
                    "events": names, "seed": seed,
                    "profile": {"x64": True, "devices": D}, "part": "pmap",
                    "weight": 4})
  # jax_enable_x64 switched on after the library was imported: the roots are
  # still documented to be computed in float64 (a small ridge on the
  # rank-deficient statistics of these trees makes float32 roots visible)
  for c in [{"matrix_epsilon": 1e-9}, {"matrix_epsilon": 1e-9, "eigh": True}]:
    tasks.append({"name": "%s|T1|rep|x64late" % cfg_name(c), "cfg": c,
                  "tree": "T1", "mode": "rep", "depth": 3, "events": names,
                  "seed": seed, "profile": {"x64": True, "x64_late": True},
                  "part": "x64_late", "weight": 1})
  if tier != "quick":
    for c in [{}, {"beta2": 1.0}, {"precondtioner_type": 2,
                                    "best_effort_shape_interpretation": False}]:
      for mode in ["rep", "sharded"]:
        tasks.append({"name": "%s|T3|%s" % (cfg_name(c), mode), "cfg": c,
                      "tree": "T3", "mode": mode, "depth": 4,
                      "events": names, "seed": seed,
                      "profile": {"x64": True}, "part": mode})
  return {
      "tasks": tasks,
      "rule": "every configuration within %d deviation(s) of the base "
              "configuration over %d arithmetic options (+%d interacting "
              "pairs) x trees x {replicated, sharded; structural options "
              "also under pmap over 2 (4) devices} x all gradient "
              "histories up to depth %d; state = (optimizer state, reference "
              "state) bit-exact; non-trivial = transition at or after the "
              "start-preconditioning step of a preconditioned leaf" %
              (k, len(OPTIONS), len(PAIRS), depth),
      "bounds": {"deviation": k, "depth": depth, "configs": len(cfgs)},
      "assumptions": [
          "the ridge actually used is taken from the reported diagnostics "
          "(max_eigen_value, total_retries); the accept/keep decision from "
          "the reported error (C01/C03 judge those)",
          "tolerance 2e-4 of the leaf's reference max-norm",
          "graft NONE with coupled learning rate is excluded (undefined by "
          "the documentation)",
          "before every task the neighbouring configurations (each single "
          "deviation reverted) are constructed and initialised in the same "
          "process, and once more afterwards, so state hidden at module "
          "level shows up as a deviation of the task or of the neighbour"],
      "timeout": 3000,
  }


TOL = 2e-4
STAT_TOL = 2e-6


def run_task(task):
  from mc import ds
  from mc.ref import shampoo as ref
  acc = Acc(task["name"])
  cfg = task["cfg"]
  shapes = TREES[task["tree"]]
  mode = task["mode"]
  full = dict(ref.BASE, **cfg)
  alpha0 = ds.grad_trees(shapes, ["gA", "gB"], (0, ref.BASE["block_size"]),
                         task["seed"])

  def neighbours():
    """The task's configuration with each single deviation reverted."""
    out = []
    for k in cfg:
      c = dict(cfg)
      del c[k]
      if not excluded(c):
        out.append(c)
    return out or [{}]

  def neighbour_probe(tag):
    """Process-history dimension: other optimizers live in the same process.
    Before the task the neighbouring configurations are constructed and
    initialised (no state is shared with them, so this must be invisible);
    afterwards they are initialised again and the layout of their statistics
    must still be the documented one."""
    for c in neighbours():
      try:
        br = ds.Runner(c, shapes, mode, ndev=task.get("ndev", 1))
        bs = br.init()
        acc.transitions += 1
        if tag == "after":
          rr = ref.RefShampoo(c, br.params_np, "rep")
          for n in shapes:
            got = [tuple(np.shape(x)) for x in
                   br.leaf_stats(bs, n)["statistics"]]
            want = [tuple(x.shape) for x in rr.leaves[n].stats]
            if got != want:
              acc.outcome("viol_process_history")
              acc.violation(
                  "C02|%s|after|%s" % (task["name"], n),
                  "an optimizer with configuration %s built after this "
                  "task's optimizer in the same process has statistics %s "
                  "for leaf %s, documented %s: something outside the state "
                  "pytree is shared" % (c, got, n, want),
                  {"cfg": cfg, "neighbour": c, "tree": task["tree"],
                   "mode": mode, "leaf": n})
              return
        acc.outcome("neighbour_probe_ok")
      except Exception as e:  # pylint: disable=broad-except
        acc.violation("C02|%s|%s|exc" % (task["name"], tag), "neighbour "
                      "probe raised %s: %s" % (type(e).__name__,
                                               str(e)[:200]),
                      {"cfg": cfg, "neighbour": c})

  neighbour_probe("before")
  try:
    runner = ds.Runner(cfg, shapes, mode, ndev=task.get("ndev", 1))
    s0 = runner.init()
  except Exception as e:  # pylint: disable=broad-except
    acc.violation("C02|%s|init" % task["name"], "construction/init raised "
                  "%s: %s" % (type(e).__name__, str(e)[:300]),
                  {"cfg": cfg, "tree": task["tree"], "mode": mode})
    acc.states += 1
    return acc.result()
  bsz = (0, full["block_size"])
  alpha = ds.grad_trees(shapes, task["events"], bsz, task["seed"])
  r0 = ref.RefShampoo(cfg, runner.params_np, "sharded" if mode == "sharded"
                      else "rep")
  worst = [0.0]
  worst_stat = [0.0]
  failed = [False]

  def step(s, ev):
    if failed[0]:
      return None, s
    try:
      u, s2 = runner.step(s, alpha[ev])
      return runner.host(u), s2
    except Exception as e:  # pylint: disable=broad-except
      failed[0] = True
      acc.outcome("viol_exception")
      acc.violation("C02|%s|exc" % task["name"], "update raised %s: %s" %
                    (type(e).__name__, str(e)[:300]),
                    {"cfg": cfg, "tree": task["tree"], "mode": mode,
                     "event": ev})
      return None, s

  # custom BFS (reference advanced with observations)
  frontier = [(s0, r0, ())]
  acc.states += 1
  seen = {tree_hash(runner.host(s0))}
  for _ in range(task["depth"]):
    nxt = []
    for s, r, hist in frontier:
      for ev in task["events"]:
        if not on_path(task, hist + (ev,)):
          continue
        u, s2 = step(s, ev)
        if failed[0]:
          return acc.result()
        acc.transitions += 1
        r2 = r.copy()
        obs = runner.obs(s2)
        want = r2.step(alpha[ev], obs)
        h2 = hist + (ev,)
        t = r.count
        pre_leafs = [n for n, lf in r.leaves.items() if not lf.skip]
        if t >= full["start_preconditioning_step"] and pre_leafs:
          acc.nontrivial += 1
        for (nm_, k_, dev) in r2.stat_dev:
          worst_stat[0] = max(worst_stat[0], dev if np.isfinite(dev) else 0)
          if not dev <= STAT_TOL:
            acc.outcome("viol_statistics")
            acc.violation(
                "C02|%s|%s|%s|stat%d" % (task["name"], ",".join(h2), nm_, k_),
                "statistic %d of leaf %s differs from w1*L + w2*G G^T: rel "
                "dev %.3g" % (k_, nm_, dev),
                {"cfg": cfg, "tree": task["tree"], "mode": mode,
                 "history": list(h2), "leaf": nm_, "statistic": k_})
        for name in shapes:
          okc, rel = True, 0.0
          a = np.asarray(u[name], np.float64)
          b = want[name]
          if a.shape != b.shape:
            okc, rel = False, float("inf")
          else:
            scale = max(maxabs(b), 1e-30)
            if not (np.all(np.isfinite(a)) and np.all(np.isfinite(b))):
              okc, rel = False, float("inf")
            else:
              rel = maxabs(a - b) / scale
              okc = rel <= TOL
          worst[0] = max(worst[0], rel if np.isfinite(rel) else 0.0)
          if not okc:
            acc.outcome("viol_update")
            acc.violation(
                "C02|%s|%s|%s" % (task["name"], ",".join(h2), name),
                "update of leaf %s differs from the documented math: rel "
                "err %.3g (impl %s.. ref %s..)" %
                (name, rel, np.asarray(a).ravel()[:3].tolist(),
                 np.asarray(b).ravel()[:3].tolist()),
                {"cfg": cfg, "tree": task["tree"], "mode": mode,
                 "history": list(h2), "leaf": name})
          else:
            acc.outcome("leaf_ok")
        if runner.count(s2) != t + 1:
          acc.violation("C02|%s|count" % task["name"], "count did not "
                        "advance by one", {"cfg": cfg})
        key = tree_hash(runner.host(s2))
        if key in seen:
          acc.outcome("merged_states")
          continue
        seen.add(key)
        acc.states += 1
        nxt.append((s2, r2, h2))
        acc.sample({"cfg": cfg, "tree": task["tree"], "mode": mode,
                    "history": list(h2),
                    "update_v": np.asarray(u[list(shapes)[0]]).ravel()[:3]
                    .tolist()})
    frontier = nxt
  neighbour_probe("after")
  acc.extra["worst_rel"] = worst[0]
  acc.extra["worst_stat_dev"] = worst_stat[0]
  acc.outcome("kappa_le_1e4" if max(x[1].kappa for x in frontier or
                                    [(0, r0)]) <= 1e4 else "kappa_gt_1e4")
  return acc.result()
