"""C15 - Tearfree optimizer equals its documented composition.

mcx: for every configuration within deviation k of a base TearfreeOptions, BFS
over all gradient histories {gA,gB,g0}^<=T through the real
tearfree(lr, options).update, lock-step with mc/ref/tearfree.py (float64).
Shampoo runs under x64 (float64, tolerance 1e-9), Sketchy in float32 (1e-4).
Differential: lr=c versus lr=1 (exactly linear for dyadic c).
"""
import itertools
import json

import numpy as np

from mc.lib import Acc, tree_hash, maxabs, on_path

TREES = {
    "T1": {"v": [5], "m": [4, 2], "t": [2, 3, 2]},
    # k: two blocked axes (2 blocks each at block size 3) separated by a
    # small axis
    "T2": {"w": [1, 3, 1, 2], "q": [4, 4], "s": [], "r": [1, 5],
           "k": [6, 2, 6]},
}

BASE = dict(block_size=3, merge_dims=4, second_moment_decay=0.5,
            graft_decay=0.5, learning_rate=0.25, momentum_decay=0.5)

OPTIONS = [
    ("block_size", [2, 4, 1024]),
    ("merge_dims", [2, 8, 1024]),
    ("update_preconditioners_freq", [2, 3]),
    ("update_statistics_freq", [2, 3]),
    ("second_moment_decay", [1.0, 0.999]),
    ("grafting_type", ["none", "sgd", "adafactor"]),
    ("graft_decay", [1.0, 0.999]),
    ("start_preconditioning_step", [1, 3]),
    ("skip_preconditioning_rank1", [False]),
    ("skip_preconditioning_any_dim_gt", [3, 2]),
    ("ema", [True]),
    ("nesterov", [False]),
    ("momentum_decay", [0.0, 0.9]),
    ("weight_decay", [0.25]),
    ("learning_rate", [{"sched": "lin"}, 1.0]),
]
SK_OPTIONS = [
    ("sketchy_rank", [1, 3]),
    ("relative_epsilon", [False]),
    ("sketchy_epsilon", [1e-3, 0.05]),
    ("update_freq", [2, 3]),
    ("second_moment_decay", [1.0, 0.25]),
    ("merge_dims", [2, 1024]),
    ("grafting_type", ["none", "sgd"]),
    ("start_preconditioning_step", [2]),
    ("skip_preconditioning_rank1", [False]),
    ("momentum_decay", [0.0]),
]
PAIRS = [
    {"weight_decay": 0.25, "weight_decay_after_momentum": False},
    {"weight_decay": 0.25, "weight_decay_after_momentum": False, "ema": True},
    {"ema": True, "nesterov": False},
    {"grafting_type": "none", "skip_preconditioning_rank1": False},
    {"start_preconditioning_step": 2, "update_preconditioners_freq": 2},
    {"block_size": 4, "merge_dims": 8},
    {"skip_preconditioning_any_dim_gt": 3, "grafting_type": "sgd"},
    {"second_moment_decay": 1.0, "update_statistics_freq": 2},
    {"update_statistics_freq": 2, "update_preconditioners_freq": 3},
    {"update_statistics_freq": 3, "update_preconditioners_freq": 2},
    {"momentum_decay": 0.0, "weight_decay": 0.25},
    {"momentum_decay": 0.0, "weight_decay": 0.25,
     "weight_decay_after_momentum": False},
    {"momentum_decay": 0.0, "learning_rate": {"sched": "lin"}},
]


def excluded(c):
  full = dict(BASE, **c)
  # adafactor requires decay in (0,1); rmsprop/adafactor with decay 1 only
  # rmsprop
  if full.get("grafting_type") == "adafactor" and \
      full.get("graft_decay") in (1.0,):
    return True
  return False


def configs(options, k, pairs=()):
  singles = [{n: a} for n, alts in options for a in alts]
  out = [{}] + singles + list(pairs)
  if k >= 2:
    for a, b in itertools.combinations(singles, 2):
      if set(a) & set(b):
        continue
      c = dict(a)
      c.update(b)
      out.append(c)
  seen, res = set(), []
  for c in out:
    key = json.dumps(c, sort_keys=True)
    if key in seen or excluded(c):
      continue
    seen.add(key)
    res.append(c)
  return res


def cname(c):
  return ",".join("%s=%s" % (k, json.dumps(v) if isinstance(v, dict) else v)
                  for k, v in sorted(c.items())) or "base"


def plan(tier, seed):
  k = 1 if tier == "quick" else 2
  depth = 3 if tier == "quick" else 4
  events = ["gA", "gB", "g0", "gD"]
  tasks = []
  for c in configs(OPTIONS, k, PAIRS):
    for tr in TREES:
      if k >= 2 and len(c) >= 2 and tr == "T2" and c not in PAIRS:
        continue
      d, evs = depth, events
      if "update_preconditioners_freq" in c or "update_statistics_freq" in c:
        # interacting frequencies first disagree at step lcm-ish (3 for 2/3)
        d, evs = max(depth, 5), ["gA", "gB"]
      tasks.append({"name": "shampoo|%s|%s" % (cname(c), tr), "cfg": c,
                    "tree": tr, "kind": "shampoo", "depth": d,
                    "events": evs, "seed": seed, "part": "shampoo",
                    "profile": {"x64": True}})
  for c in configs(SK_OPTIONS, k):
    for tr in TREES:
      if k >= 2 and len(c) >= 2 and tr == "T2":
        continue
      cc = dict(c, second_order_type="sketchy")
      cc.setdefault("sketchy_rank", 2)
      tasks.append({"name": "sketchy|%s|%s" % (cname(c), tr), "cfg": cc,
                    "tree": tr, "kind": "sketchy", "depth": depth,
                    # float32 cannot resolve the 2^-28 eigenvalue spread of
                    # the scale-disparate event
                    "events": [e for e in events if e != "gD"],
                    "seed": seed, "part": "sketchy",
                    "profile": {"x64": False}})
  return {
      "tasks": tasks,
      "rule": "every configuration within %d deviation(s) of the base "
              "TearfreeOptions (%d Shampoo options + %d pairs, %d Sketchy "
              "options) x 2 trees x all histories over %s up to depth %d; "
              "state = (optimizer state, reference state) bit-exact; "
              "non-trivial = transition with a non-zero gradient" %
              (k, len(OPTIONS), len(PAIRS), len(SK_OPTIONS), events, depth),
      "bounds": {"deviation": k, "depth": depth},
      "assumptions": [
          "gradient alphabet keeps every block covariance either full rank "
          "and well conditioned or exactly rank deficient; a leaf with an "
          "eigenvalue within a factor 4 of the documented 1e-6 cut-off (a "
          "discontinuity) is undecidable from then on along that path and "
          "is counted, the other leaves are still compared",
          "optax.adafactor is the trusted base for ADAFACTOR grafting"],
      "timeout": 3000,
  }


def run_task(task):
  import jax
  import jax.numpy as jnp
  import optax
  from mc import grads as G
  from mc.props import c07
  from mc.ref import tearfree as ref
  acc = Acc(task["name"])
  cfg = dict(BASE, **task["cfg"])
  shapes = TREES[task["tree"]]
  f64 = task["kind"] == "shampoo"
  dt = np.float64 if f64 else np.float32
  tol = 1e-9 if f64 else 2e-4
  params_np = {k: G.dyadic(tuple(s), "P" + k).astype(dt)
               for k, s in shapes.items()}
  params = {k: jnp.asarray(v) for k, v in params_np.items()}
  sigbase = "C15|" + task["name"]
  case0 = {"cfg": task["cfg"], "tree": task["tree"], "kind": task["kind"]}
  try:
    opt = c07.build_tearfree(cfg)
    s0 = opt.init(params)
  except ValueError as e:
    acc.states += 1
    acc.outcome("rejected_explicitly")
    acc.sample(dict(case0, rejected=str(e)[:100]))
    return acc.result()
  upd = jax.jit(opt.update)
  lin = None
  if not isinstance(cfg["learning_rate"], dict) and cfg["learning_rate"] != 1:
    opt1 = c07.build_tearfree(dict(cfg, learning_rate=1.0))
    lin = (jax.jit(opt1.update), opt1.init(params))
  bsz = (0, 2, cfg["block_size"] if cfg["block_size"] < 100 else 0)
  alpha = {n: {k: v.astype(dt) for k, v in t.items()} for n, t in
           G.tree_alphabet({k: tuple(v) for k, v in shapes.items()},
                           task["events"], bsz, task["seed"]).items()}
  r0 = ref.RefTearfree(cfg, params_np)
  ada = None
  if cfg.get("grafting_type") == "adafactor":
    atx = optax.adafactor(
        min_dim_size_to_factor=cfg.get("min_dim_size_to_factor", 128),
        decay_rate=cfg["graft_decay"], multiply_by_parameter_scale=True,
        eps=1e-23, clipping_threshold=1.0)
    ada = (jax.jit(atx.update), atx.init(params))
  frontier = [(s0, r0, lin[1] if lin else None, ada[1] if ada else None, ())]
  seen = {tree_hash(s0)}
  acc.states += 1
  worst = 0.0
  for _ in range(task["depth"]):
    nxt = []
    for s, r, ls, as_, hist in frontier:
      for ev in task["events"]:
        if not on_path(task, hist + (ev,)):
          continue
        g = {k: jnp.asarray(v) for k, v in alpha[ev].items()}
        h2 = hist + (ev,)
        case = dict(case0, history=list(h2))
        try:
          u, s2 = upd(g, s, params)
        except Exception as e:  # pylint: disable=broad-except
          acc.outcome("viol_exception")
          acc.violation(sigbase + "|exc", "update raised %s: %s" %
                        (type(e).__name__, str(e)[:300]), case)
          return acc.result()
        acc.transitions += 1
        if ev != "g0":
          acc.nontrivial += 1
        r2 = r.copy()
        au, as2 = None, None
        if ada:
          au, as2 = ada[0](g, as_, params)
          au = {k: -np.asarray(v, np.float64) for k, v in au.items()}
        want, _ = r2.step(alpha[ev], au)
        for n in shapes:
          if r2.leaves[n].near_cutoff:
            # an eigenvalue within a factor 4 of the documented 1e-6 cut-off:
            # which side it falls on is decided by rounding, the leaf stays
            # undecidable for the rest of the path (the flag is sticky)
            acc.outcome("near_cutoff_leaf_undecidable")
            continue
          if r2.leaves[n].tail_switch_seen:
            acc.outcome("tail_switch_leaf_undecidable")
            continue
          a = np.asarray(u[n], np.float64)
          b = want[n]
          sc = max(maxabs(b), 1e-30)
          if a.shape != b.shape or not np.all(np.isfinite(a)):
            rel = float("inf")
          else:
            rel = maxabs(a - b) / sc
          if np.isfinite(rel):
            worst = max(worst, rel)
          tol_n = tol
          amp = r2.leaves[n].zero_tail_amp
          if not f64 and amp > 0:
            tol_n = tol + 32 * 2.0**-23 * amp
            acc.outcome("zero_tail_extra_tolerance")
          if not rel <= tol_n:
            acc.outcome("viol_update")
            acc.violation(
                "%s|%s|%s" % (sigbase, ",".join(h2), n),
                "update of %s differs from the documented composition: rel "
                "err %.3g (impl %s.. ref %s..)" %
                (n, rel, np.asarray(a).ravel()[:3].tolist(),
                 np.asarray(b).ravel()[:3].tolist()), dict(case, leaf=n))
          else:
            acc.outcome("leaf_ok")
        ls2 = None
        if lin:
          u1, ls2 = lin[0](g, ls, params)
          c = cfg["learning_rate"]
          for n in shapes:
            a, b = np.asarray(u[n]), np.asarray(u1[n]) * dt(c)
            if not np.array_equal(a, b) and \
                maxabs(a.astype(np.float64) - b) > 4 * np.finfo(dt).eps * \
                max(maxabs(b), 1e-300):
              acc.outcome("viol_lr_linear")
              acc.violation("%s|%s|%s|lin" % (sigbase, ",".join(h2), n),
                            "update is not linear in the learning rate",
                            dict(case, leaf=n))
        k = tree_hash(s2)
        if k in seen:
          acc.outcome("merged_states")
          continue
        seen.add(k)
        acc.states += 1
        nxt.append((s2, r2, ls2, as2, h2))
        acc.sample(dict(case, update=np.asarray(u[list(shapes)[0]])
                        .ravel()[:3].tolist()))
    frontier = nxt
  acc.extra["worst_rel"] = worst
  return acc.result()
