"""C12 - SM3 accumulators cover the true second moment.

mcx: BFS over all gradient histories {gA,gB,g0}^<=T (dyadic entries) through
the real sm3(...).update, one configuration (shape, beta2, beta1, weight
decay, normalisation) per task, in lock-step with an exact float64 per-entry
accumulator.
"""
import itertools

import numpy as np

from mc import grads
from mc.lib import Acc, bfs, tree_hash


def shapes_for(tier):
  if tier == "quick":
    return [(3,), (1,), (2, 3), (3, 3), (3, 1), (2, 3, 2), (3, 2, 3),
            (1, 3, 2), (2, 2, 2, 2), (3, 2, 1, 2), (2, 1), (1, 1)]
  out = []
  for r in range(1, 5):
    for sh in itertools.product([1, 2, 3], repeat=r):
      out.append(sh)
  return out


def plan(tier, seed):
  tasks = []
  depth = 4 if tier == "quick" else 5
  for sh in shapes_for(tier):
    for b2 in [1.0, 0.5, 0.999]:
      for b1 in [0.0, 0.9]:
        for wd, norm in [(0.0, False), (0.25, False), (0.0, True)]:
          if tier == "quick" and (wd or norm) and b1 == 0.9:
            continue
          tasks.append({"name": "sm3/%s/b2=%s/b1=%s/wd=%s/n=%s" %
                        ("x".join(map(str, sh)), b2, b1, wd, int(norm)),
                        "shape": list(sh), "beta2": b2, "beta1": b1,
                        "wd": wd, "norm": norm, "depth": depth, "seed": seed,
                        "profile": {"x64": False}})
  return {
      "tasks": tasks,
      "rule": "all histories over {gA,gB,g0,gSeed} up to the depth bound per "
              "(shape, beta2, beta1, weight decay, normalisation); states "
              "merged on bit-identical (optimizer state, reference "
              "accumulator); non-trivial = transition with a non-zero "
              "gradient",
      "bounds": {"depth": depth, "shapes": len(shapes_for(tier))},
      "assumptions": ["float32 optimizer state; dyadic gradient entries make "
                      "the accumulators exact for beta2 in {1, 0.5}"],
  }


def run_task(task):
  import jax
  import jax.numpy as jnp
  from precondition import sm3
  acc = Acc(task["name"])
  sh = tuple(task["shape"])
  b2, b1, wd, norm = task["beta2"], task["beta1"], task["wd"], task["norm"]
  lr = 0.5
  eps = 1e-10
  opt = sm3.sm3(lr, beta1=b1, beta2=b2, diagonal_epsilon=eps,
                weight_decay=wd, normalize_grads=norm)
  params = {"w": jnp.asarray(grads.dyadic(sh, "P"))}
  names = ["gA", "gB", "g0", "gSeed"]
  alpha = grads.alphabet(sh, names, seed=task["seed"])
  upd = jax.jit(opt.update)
  s0 = opt.init(params)
  exact = (b2 in (1.0, 0.5)) and not norm
  delta = 0.0 if exact else 2e-6
  w = (1.0 - b2) if b2 != 1.0 else 1.0
  p64 = np.asarray(params["w"], np.float64)

  def step(s, ev):
    u, s2 = upd({"w": jnp.asarray(alpha[ev])}, s, params)
    return u, s2

  w1 = (1.0 - b1) if b1 != 1.0 else 1.0

  def ref_step(ref, ev):
    """ref[0]: exact decayed second moment; ref[1]: the documented momentum
    average of the magnitudes of diagonal AdaGrad/RMSProp's steps; ref[2]:
    the same average of the signed steps (what rank-1 SM3 must equal)."""
    gamma = ref[0]
    g = alpha[ev].astype(np.float64)
    if norm:
      g = g / (np.linalg.norm(g) + 1e-16)
    g2 = b2 * gamma + w * g * g
    ada = g / np.sqrt(g2 + eps)
    return g, np.stack([g2, b1 * ref[1] + w1 * np.abs(ada),
                        b1 * ref[2] + w1 * ada])

  def canon(s, gamma):
    return tree_hash(s, gamma.tobytes())

  def check(hist, s, ev, out, s2, ref, g, ref2):
    gamma2 = ref2[0]
    accs = [np.asarray(a, np.float64) for a in s2.stats["w"].diagonal_statistics]
    old = [np.asarray(a) for a in s.stats["w"].diagonal_statistics]
    new32 = [np.asarray(a) for a in s2.stats["w"].diagonal_statistics]
    rank = len(sh)
    cover = None
    for i, a in enumerate(accs):
      shape_i = [1] * i + [sh[i]] + [1] * (rank - i - 1)
      e = a.reshape(shape_i) * np.ones(sh)
      cover = e if cover is None else np.minimum(cover, e)
    case = {"shape": sh, "beta2": b2, "beta1": b1, "wd": wd, "norm": norm,
            "history": list(hist)}
    sig = "C12|%s|%s" % (task["name"], ",".join(hist))
    if np.any(g != 0):
      acc.nontrivial += 1
    if not np.all(cover >= gamma2 * (1 - delta) - 1e-300):
      i = int(np.argmax(gamma2 * (1 - delta) - cover))
      acc.outcome("viol_cover")
      acc.violation(sig + "|cover", "min over accumulators %.9g < exact "
                    "second moment %.9g at flat index %d" %
                    (cover.flat[i], gamma2.flat[i], i), case)
    else:
      acc.outcome("cover_ok")
    if b2 == 1.0:
      for o, n in zip(old, new32):
        if np.any(n < o):
          acc.outcome("viol_monotone")
          acc.violation(sig + "|mono", "accumulator decreased with beta2=1",
                        case)
    if int(s2.count) != int(s.count) + 1:
      acc.violation(sig + "|count", "count did not advance by one", case)
    if b1 == 0.0:
      u = np.asarray(out["w"], np.float64)
      # diagonal AdaGrad / RMSProp step for the same history (+ decay term)
      ada = g / np.sqrt(gamma2 + eps)
      pre = -u / lr - wd * p64          # SM3's preconditioned gradient
      tol = 1e-6 * (np.abs(ada) + 1e-30) + 1e-12
      if not np.all(np.abs(pre) <= np.abs(ada) + tol):
        i = int(np.argmax(np.abs(pre) - np.abs(ada)))
        acc.outcome("viol_step_bound")
        acc.violation(sig + "|step", "|SM3 step| %.9g exceeds diagonal "
                      "AdaGrad/RMSProp step %.9g at flat index %d" %
                      (abs(pre.flat[i]), abs(ada.flat[i]), i), case)
      elif rank == 1 and not np.all(np.abs(pre - ada) <= tol):
        acc.outcome("viol_rank1_equal")
        acc.violation(sig + "|rank1", "rank-1 SM3 step differs from "
                      "diagonal AdaGrad/RMSProp", case)
      else:
        acc.outcome("step_ok")
    else:
      # with momentum the emitted step is the moving average of the
      # preconditioned gradients, so it is bounded by the same average of
      # diagonal AdaGrad/RMSProp's steps (rank 1: equal to it).  The stored
      # momentum is int8-quantized (half a bucket = 0.4% of the column
      # maximum per step), hence the 3% allowance.
      u = np.asarray(out["w"], np.float64)
      pre = -u / lr - wd * p64
      slack = 0.03 * max(float(np.max(ref2[1])), 1e-30)
      if not np.all(np.abs(pre) <= ref2[1] + slack):
        i = int(np.argmax(np.abs(pre) - ref2[1]))
        acc.outcome("viol_step_bound_momentum")
        acc.violation(sig + "|mstep", "|SM3 step with momentum| %.9g exceeds "
                      "the momentum average of diagonal AdaGrad/RMSProp's "
                      "steps %.9g at flat index %d" %
                      (abs(pre.flat[i]), ref2[1].flat[i], i), case)
      elif rank == 1 and not np.all(np.abs(pre - ref2[2]) <= slack):
        acc.outcome("viol_rank1_equal_momentum")
        acc.violation(sig + "|mrank1", "rank-1 SM3 step with momentum "
                      "differs from diagonal AdaGrad/RMSProp with the same "
                      "momentum", case)
      else:
        acc.outcome("momentum_step_ok")
    acc.sample(dict(case, cover_min=float(cover.min()),
                    exact_max=float(gamma2.max())))

  bfs(acc, s0, np.zeros((3,) + sh, np.float64), names, task["depth"], step, ref_step,
      check, canon, task=task)
  return acc.result()
