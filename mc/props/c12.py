"""C12 - SM3 accumulators cover the true second moment.

mcx: BFS over all gradient histories {gA,gB,g0}^<=T (dyadic entries) through
the real sm3(...).update, one configuration (shape, beta2, beta1, weight
decay, normalisation) per task, in lock-step with an exact float64 per-entry
accumulator.
"""
import itertools

import numpy as np

from mc import grads
from mc.lib import Acc, bfs, tree_hash


def shapes_for(tier):
  if tier == "quick":
    return [(3,), (1,), (2, 3), (3, 3), (3, 1), (2, 3, 2), (3, 2, 3),
            (1, 3, 2), (2, 2, 2, 2), (3, 2, 1, 2), (2, 1), (1, 1)]
  out = []
  for r in range(1, 5):
    for sh in itertools.product([1, 2, 3], repeat=r):
      out.append(sh)
  return out


def plan(tier, seed):
  tasks = []
  depth = 4 if tier == "quick" else 5
  for sh in shapes_for(tier):
    for b2 in [1.0, 0.5, 0.999]:
      for b1 in [0.0, 0.9]:
        for wd, norm in [(0.0, False), (0.25, False), (0.0, True)]:
          if tier == "quick" and (wd or norm) and b1 == 0.9:
            continue
          tasks.append({"name": "sm3/%s/b2=%s/b1=%s/wd=%s/n=%s" %
                        ("x".join(map(str, sh)), b2, b1, wd, int(norm)),
                        "shape": list(sh), "beta2": b2, "beta1": b1,
                        "wd": wd, "norm": norm, "depth": depth, "seed": seed,
                        "profile": {"x64": False}})
  # bfloat16 tensors (accumulators must not be summed in 8 bits of
  # mantissa: one large gradient, |g| = 16, then ordinary ones) and a
  # gradient entry whose square overflows float32
  for sh in [(3,), (2, 3), (2, 1, 3)]:
    for b1 in [0.0]:
      tasks.append({"name": "sm3/%s/bf16/b2=1.0" % "x".join(map(str, sh)),
                    "shape": list(sh), "beta2": 1.0, "beta1": b1, "wd": 0.0,
                    "norm": False, "depth": depth, "seed": seed,
                    "dtype": "bfloat16", "events": ["gBig16", "gP2a", "gP2b"],
                    "profile": {"x64": False}})
      for b2 in [1.0, 0.5]:
        tasks.append({"name": "sm3/%s/ovf/b2=%s" % ("x".join(map(str, sh)),
                                                    b2),
                      "shape": list(sh), "beta2": b2, "beta1": b1, "wd": 0.0,
                      "norm": False, "depth": depth, "seed": seed,
                      "events": ["gA", "gOvf", "gB"],
                      "profile": {"x64": False}})
  return {
      "tasks": tasks,
      "rule": "all histories over {gA,gB,g0,gSeed} up to the depth bound per "
              "(shape, beta2, beta1, weight decay, normalisation); states "
              "merged on bit-identical (optimizer state, reference "
              "accumulator); non-trivial = transition with a non-zero "
              "gradient",
      "bounds": {"depth": depth, "shapes": len(shapes_for(tier))},
      "assumptions": ["float32 optimizer state; dyadic gradient entries make "
                      "the accumulators exact for beta2 in {1, 0.5}"],
  }


def run_task(task):
  import jax
  import jax.numpy as jnp
  from precondition import sm3
  acc = Acc(task["name"])
  sh = tuple(task["shape"])
  b2, b1, wd, norm = task["beta2"], task["beta1"], task["wd"], task["norm"]
  lr = 0.5
  eps = 1e-10
  opt = sm3.sm3(lr, beta1=b1, beta2=b2, diagonal_epsilon=eps,
                weight_decay=wd, normalize_grads=norm)
  jdt = jnp.bfloat16 if task.get("dtype") == "bfloat16" else jnp.float32
  params = {"w": jnp.asarray(grads.dyadic(sh, "P")).astype(jdt)}
  names = task.get("events") or ["gA", "gB", "g0", "gSeed"]
  alpha = grads.alphabet(sh, [n for n in names if n in
                              ("gA", "gB", "g0", "gSeed")] or ["gA"],
                         seed=task["seed"])
  if "gBig16" in names:     # every entry +-16 (exact in bfloat16)
    alpha["gBig16"] = (np.sign(alpha["gA"]) + (alpha["gA"] == 0)) * \
        np.float32(16.0)
  sgn = lambda a: np.sign(a) + (a == 0)
  if "gP2a" in names:       # entries +-1 and +-1/2, +-2: squares are exact
    alpha["gP2a"] = (sgn(alpha["gA"]) * np.float32(1.0)).astype(np.float32)
    pw = np.float32(2.0) ** ((np.arange(alpha["gA"].size) % 3) - 1)
    alpha["gP2b"] = (sgn(alpha["gA"][::-1] if alpha["gA"].ndim == 1 else
                         alpha["gA"]) * pw.reshape(alpha["gA"].shape)
                     ).astype(np.float32)
    alpha = {k: v for k, v in alpha.items() if k in names}
  if "gOvf" in names:       # one entry whose square overflows float32
    g = alpha["gA"].copy()
    g.flat[g.size // 2] = np.float32(2.0**67)
    alpha["gOvf"] = g
  if jdt == jnp.bfloat16:   # round the alphabet to bfloat16 once: exact
    alpha = {k: np.asarray(jnp.asarray(v).astype(jdt).astype(jnp.float32))
             for k, v in alpha.items()}
  upd = jax.jit(opt.update)
  s0 = opt.init(params)
  exact = (b2 in (1.0, 0.5)) and not norm
  delta = 0.0 if exact else 2e-6
  w = (1.0 - b2) if b2 != 1.0 else 1.0
  p64 = np.asarray(params["w"], np.float64)

  def step(s, ev):
    u, s2 = upd({"w": jnp.asarray(alpha[ev]).astype(jdt)}, s, params)
    return u, s2

  w1 = (1.0 - b1) if b1 != 1.0 else 1.0

  def ref_step(ref, ev):
    """ref[0]: exact decayed second moment; ref[1]: the documented momentum
    average of the magnitudes of diagonal AdaGrad/RMSProp's steps; ref[2]:
    the same average of the signed steps (what rank-1 SM3 must equal)."""
    gamma = ref[0]
    g = alpha[ev].astype(np.float64)
    if norm:
      g = g / (np.linalg.norm(g) + 1e-16)
    g2 = b2 * gamma + w * g * g
    ada = g / np.sqrt(g2 + eps)
    return g, np.stack([g2, b1 * ref[1] + w1 * np.abs(ada),
                        b1 * ref[2] + w1 * ada])

  def canon(s, gamma):
    return tree_hash(s, gamma.tobytes())

  def check(hist, s, ev, out, s2, ref, g, ref2):
    gamma2 = ref2[0]
    accs = [np.asarray(a, np.float64) for a in s2.stats["w"].diagonal_statistics]
    old = [np.asarray(a) for a in s.stats["w"].diagonal_statistics]
    new32 = [np.asarray(a) for a in s2.stats["w"].diagonal_statistics]
    rank = len(sh)
    cover = None
    for i, a in enumerate(accs):
      shape_i = [1] * i + [sh[i]] + [1] * (rank - i - 1)
      e = a.reshape(shape_i) * np.ones(sh)
      cover = e if cover is None else np.minimum(cover, e)
    case = {"shape": sh, "beta2": b2, "beta1": b1, "wd": wd, "norm": norm,
            "history": list(hist)}
    sig = "C12|%s|%s" % (task["name"], ",".join(hist))
    if np.any(g != 0):
      acc.nontrivial += 1
    if not np.all(cover >= gamma2 * (1 - delta) - 1e-300):
      i = int(np.argmax(gamma2 * (1 - delta) - cover))
      acc.outcome("viol_cover")
      acc.violation(sig + "|cover", "min over accumulators %.9g < exact "
                    "second moment %.9g at flat index %d" %
                    (cover.flat[i], gamma2.flat[i], i), case)
    else:
      acc.outcome("cover_ok")
    if b2 == 1.0:
      for o, n in zip(old, new32):
        if np.any(n < o):
          acc.outcome("viol_monotone")
          acc.violation(sig + "|mono", "accumulator decreased with beta2=1",
                        case)
    if int(s2.count) != int(s.count) + 1:
      acc.violation(sig + "|count", "count did not advance by one", case)
    if b1 == 0.0:
      u = np.asarray(out["w"], np.float64)
      # diagonal AdaGrad / RMSProp step for the same history (+ decay term)
      ada = g / np.sqrt(gamma2 + eps)
      pre = -u / lr - wd * p64          # SM3's preconditioned gradient
      tol = 1e-6 * (np.abs(ada) + 1e-30) + 1e-12
      if jdt == jnp.bfloat16:
        tol = 2.0**-6 * (np.abs(ada) + 1e-30)
      # a second moment beyond the float32 range is stored as +inf (step 0):
      # the bound holds trivially there, equality is not defined
      ovf = gamma2 > 3.0e38
      ada = np.where(ovf, np.where(np.abs(pre) <= np.abs(ada), pre, ada), ada)
      if not np.all(np.abs(pre) <= np.abs(ada) + tol):
        i = int(np.argmax(np.abs(pre) - np.abs(ada)))
        acc.outcome("viol_step_bound")
        acc.violation(sig + "|step", "|SM3 step| %.9g exceeds diagonal "
                      "AdaGrad/RMSProp step %.9g at flat index %d" %
                      (abs(pre.flat[i]), abs(ada.flat[i]), i), case)
      elif rank == 1 and not np.all(np.abs(pre - ada) <= tol):
        acc.outcome("viol_rank1_equal")
        acc.violation(sig + "|rank1", "rank-1 SM3 step differs from "
                      "diagonal AdaGrad/RMSProp", case)
      else:
        acc.outcome("step_ok")
    else:
      # with momentum the emitted step is the moving average of the
      # preconditioned gradients, so it is bounded by the same average of
      # diagonal AdaGrad/RMSProp's steps (rank 1: equal to it).  The stored
      # momentum is int8-quantized (half a bucket = 0.4% of the column
      # maximum per step), hence the 3% allowance.
      u = np.asarray(out["w"], np.float64)
      pre = -u / lr - wd * p64
      slack = 0.03 * max(float(np.max(ref2[1])), 1e-30)
      if not np.all(np.abs(pre) <= ref2[1] + slack):
        i = int(np.argmax(np.abs(pre) - ref2[1]))
        acc.outcome("viol_step_bound_momentum")
        acc.violation(sig + "|mstep", "|SM3 step with momentum| %.9g exceeds "
                      "the momentum average of diagonal AdaGrad/RMSProp's "
                      "steps %.9g at flat index %d" %
                      (abs(pre.flat[i]), ref2[1].flat[i], i), case)
      elif rank == 1 and not np.all(np.abs(pre - ref2[2]) <= slack):
        acc.outcome("viol_rank1_equal_momentum")
        acc.violation(sig + "|mrank1", "rank-1 SM3 step with momentum "
                      "differs from diagonal AdaGrad/RMSProp with the same "
                      "momentum", case)
      else:
        acc.outcome("momentum_step_ok")
    acc.sample(dict(case, cover_min=float(cover.min()),
                    exact_max=float(gamma2.max())))

  bfs(acc, s0, np.zeros((3,) + sh, np.float64), names, task["depth"], step, ref_step,
      check, canon, task=task)
  return acc.result()
