"""C06 - merging, blocking, blockifying and padding are lossless.

Depth-1 exhaustive enumeration of every tensor shape of rank 0..5 with dims in
1..B against index-valued tensors (arange), crossed with block sizes, merge
limits, preconditioner types and compression ranks, through the real
merge_small_dims / BlockPartitioner / Preconditioner (distributed_shampoo),
_blocks_metadata/_blockify/_deblockify (tearfree.shampoo) and
reshaper.merge/unmerge.
"""
import itertools
import math

import numpy as np

from mc.lib import Acc

MERGE_LIMITS = [1, 2, 3, 4, 6, 8, 16]


def all_shapes(maxrank, B):
  for r in range(0, maxrank + 1):
    for sh in itertools.product(range(1, B + 1), repeat=r):
      yield sh


def ref_merge_groups(shape, merged):
  """True iff `merged` is a grouping of consecutive dims of shape (1s free)."""
  dims = [d for d in shape if d != 1]
  out = [d for d in merged if d != 1]
  i = 0
  for m in out:
    p = 1
    if i >= len(dims):
      return False
    while i < len(dims) and p < m:
      p *= dims[i]
      i += 1
    if p != m:
      return False
  return i == len(dims)


def ref_block_ranges(shape, bs):
  per_axis = []
  for d in shape:
    if 0 < bs < d:
      per_axis.append([(a, min(a + bs, d)) for a in range(0, d, bs)])
    else:
      per_axis.append([(0, d)])
  return per_axis


def check_merge(acc, sh, limit):
  from precondition import distributed_shampoo as ds
  acc.transitions += 1
  sig = "C06|merge|%s|%d" % (sh, limit)
  case = {"routine": "merge_small_dims", "shape": sh, "limit": limit}
  try:
    merged = list(ds.merge_small_dims(sh, limit))
  except Exception as e:  # pylint: disable=broad-except
    acc.violation(sig, "merge_small_dims raised %r" % e, case)
    return None
  case["merged"] = merged
  if math.prod(merged) != math.prod(sh):
    acc.violation(sig + "|count", "element count changed: %s -> %s" %
                  (sh, merged), case)
  elif not ref_merge_groups(sh, merged):
    acc.violation(sig + "|order", "merged dims are not products of "
                  "consecutive dims: %s -> %s" % (sh, merged), case)
  else:
    mx = max(sh) if sh else 1
    for m in merged:
      if m > limit and m > mx or (m > limit and m not in sh):
        acc.violation(sig + "|limit", "merged dim %d exceeds limit %d "
                      "(%s -> %s)" % (m, limit, sh, merged), case)
        break
    else:
      acc.outcome("merge_ok")
  return merged


def check_partition(acc, sh, bs):
  import jax.numpy as jnp
  from precondition import distributed_shampoo as ds
  x = np.arange(1, math.prod(sh) + 1, dtype=np.float32).reshape(sh)
  acc.transitions += 1
  sig = "C06|partition|%s|%d" % (sh, bs)
  case = {"routine": "BlockPartitioner", "shape": sh, "block": bs}
  try:
    part = ds.BlockPartitioner(jnp.asarray(x), bs)
    blocks = part.partition(jnp.asarray(x))
    back = np.asarray(part.merge_partitions(blocks))
    sizes = [list(map(int, s)) for s in part.split_sizes()]
  except Exception as e:  # pylint: disable=broad-except
    acc.outcome("viol_partition_exc")
    acc.violation(sig, "BlockPartitioner raised %s: %s" %
                  (type(e).__name__, str(e)[:200]), case)
    return
  ranges = ref_block_ranges(sh, bs)
  want = [x[tuple(slice(a, b) for a, b in combo)]
          for combo in itertools.product(*ranges)]
  ok = len(blocks) == len(want)
  if ok:
    for b, w in zip(blocks, want):
      b = np.asarray(b)
      if b.shape != w.shape or not np.array_equal(b, w) or \
          (bs > 0 and any(d > bs for d in b.shape)):
        ok = False
        break
  if not ok:
    acc.outcome("viol_partition_blocks")
    acc.violation(sig + "|blocks", "blocks differ from the contiguous "
                  "slices (got %d blocks, shapes %s; want %d, shapes %s)" %
                  (len(blocks), [tuple(np.asarray(b).shape) for b in
                                 blocks][:6], len(want),
                   [w.shape for w in want][:6]), case)
  elif not np.array_equal(back, x) or back.shape != x.shape:
    acc.outcome("viol_partition_roundtrip")
    acc.violation(sig + "|roundtrip", "merge_partitions(partition(x)) != x",
                  case)
  elif sizes != [[b - a for a, b in r] for r in ranges]:
    acc.outcome("viol_split_sizes")
    acc.violation(sig + "|sizes", "split_sizes %s disagree with blocks %s" %
                  (sizes, [[b - a for a, b in r] for r in ranges]), case)
  else:
    acc.outcome("partition_ok")


def check_preconditioner(acc, sh, bs, limit, ptype, crank, merge=True):
  import jax.numpy as jnp
  from precondition import distributed_shampoo as ds
  acc.transitions += 1
  x = np.arange(1, math.prod(sh) + 1, dtype=np.float32).reshape(sh)
  sig = "C06|precond|%s|b%d|m%d|t%d|c%d|%d" % (sh, bs, limit, ptype, crank,
                                              merge)
  case = {"routine": "Preconditioner", "shape": sh, "block": bs,
          "merge_limit": limit, "type": ptype, "compression_rank": crank,
          "merge": merge}
  try:
    pc = ds.Preconditioner(jnp.asarray(x), bs, limit, merge,
                           ds.PreconditionerType(ptype), crank)
    shapes = [list(map(int, s)) for s in pc.shapes_for_preconditioners()]
    expo = pc.exponent_for_preconditioner()
    # the announcement is a query: asking the same object again (as the
    # sharded init/spec/shape functions do) must give the same answer
    again = [list(map(int, s)) for s in pc.shapes_for_preconditioners()]
    if again != shapes or pc.exponent_for_preconditioner() != expo:
      acc.outcome("viol_precond_query_not_repeatable")
      acc.violation(sig + "|requery", "asking the same Preconditioner for "
                    "its shapes a second time gives %s, the first time %s" %
                    (again, shapes), case)
      return
    tshape = list(ds.merge_small_dims(sh, limit)) if merge else list(sh)
    ranges = ref_block_ranges(tshape, bs)
    rank = len(tshape)
    if ptype == 1 or rank <= 1:
      axes = list(range(rank))
    elif ptype == 2:
      axes = list(range(rank - 1))
    else:
      axes = [rank - 1]
    want_shapes = []
    blocks = []
    xt = x.reshape(tshape)
    for combo in itertools.product(*ranges):
      blk = xt[tuple(slice(a, b) for a, b in combo)]
      blocks.append((combo, blk))
      for ax in axes:
        d = blk.shape[ax]
        want_shapes.append([d, d if not crank or abs(crank) + 2 >= d
                            else abs(crank) + 2])
    if shapes != want_shapes:
      acc.outcome("viol_shapes")
      acc.violation(sig + "|shapes", "announced preconditioner shapes %s != "
                    "blocks x preconditioned axes %s" %
                    (shapes[:8], want_shapes[:8]), case)
      return
    if expo != 2 * len(axes):
      acc.outcome("viol_exponent")
      acc.violation(sig + "|exponent", "exponent %r != 2 x %d preconditioned "
                    "axes" % (expo, len(axes)), case)
      return
    # statistics: number / order / sizes through the Gram matrices
    stats0 = [jnp.zeros((s[0], s[0]), jnp.float32) for s in shapes]
    stats = pc.updated_statistics_from_grad(stats0, jnp.asarray(x), w1=0.0,
                                            w2=1.0)
    k = 0
    ok = len(stats) == len(shapes)
    if ok:
      for combo, blk in blocks:
        for ax in axes:
          m = np.moveaxis(blk, ax, 0).reshape(blk.shape[ax], -1).astype(
              np.float64)
          want = m @ m.T
          got = np.asarray(stats[k], np.float64)
          if got.shape != want.shape or not np.allclose(got, want, rtol=1e-5,
                                                        atol=1e-3):
            ok = False
          k += 1
    if not ok:
      acc.outcome("viol_statistics")
      acc.violation(sig + "|stats", "statistics do not correspond to the "
                    "announced (block, axis) slots", case)
      return

    def mk(slot, shape, scale):
      d, c = shape
      if c == d:
        return jnp.asarray(np.eye(d, dtype=np.float32) * np.float32(scale))
      r = c - 2
      v = np.eye(d, r, dtype=np.float32)
      return ds._low_rank_pack(jnp.asarray(v), jnp.full((r,), scale,
                                                        jnp.float32),
                               jnp.asarray(scale, jnp.float32), r)

    # identity preconditioners: gradient returned exactly
    ident = [mk(i, s, 1.0) for i, s in enumerate(shapes)]
    got = np.asarray(pc.preconditioned_grad(jnp.asarray(x), ident))
    if got.shape != x.shape or not np.array_equal(got, x):
      acc.outcome("viol_identity")
      acc.violation(sig + "|identity", "preconditioning with identity "
                    "matrices changed the gradient", case)
      return
    # slot bookkeeping: slot i scales by (i+2); every block must come back
    # scaled by the product of exactly its own slots
    scal = [mk(i, s, float(i + 2)) for i, s in enumerate(shapes)]
    got = np.asarray(pc.preconditioned_grad(jnp.asarray(x), scal),
                     np.float64).reshape(tshape)
    k = 0
    for combo, blk in blocks:
      f = 1.0
      for ax in axes:
        f *= (k + 2)
        k += 1
      g = got[tuple(slice(a, b) for a, b in combo)]
      if not np.allclose(g, blk.astype(np.float64) * f, rtol=1e-5):
        acc.outcome("viol_slots")
        acc.violation(sig + "|slots", "block %s was preconditioned with the "
                      "wrong slots (expected factor %g)" % (combo, f), case)
        return
    acc.outcome("precond_ok")
    acc.sample(dict(case, transformed=tshape, shapes=shapes[:4],
                    exponent=expo))
  except Exception as e:  # pylint: disable=broad-except
    acc.outcome("viol_precond_exc")
    acc.violation(sig, "Preconditioner raised %s: %s" %
                  (type(e).__name__, str(e)[:200]), case)


def check_tearfree_blockify(acc, sh, bs):
  import jax.numpy as jnp
  from precondition.tearfree import shampoo as ts
  acc.transitions += 1
  sig = "C06|blockify|%s|%d" % (sh, bs)
  case = {"routine": "tearfree blockify", "shape": sh, "block": bs}
  x = np.arange(1, math.prod(sh) + 1, dtype=np.float32).reshape(sh)
  documented_reject = (
      bs <= 1 or any(d == 1 for d in sh) or
      sum(d >= bs for d in sh) > 2 or
      any(d % bs != 0 for d in sh if d >= bs))
  opts = None
  try:
    opts = ts.Options(block_size=bs)
    ts._validate(opts)
    ts._init(opts, {"w": jnp.asarray(x)})
    rejected = False
  except ValueError:
    rejected = True
  except Exception as e:  # pylint: disable=broad-except
    acc.violation(sig + "|exc", "init raised %s: %s" %
                  (type(e).__name__, str(e)[:200]), case)
    return
  if rejected != documented_reject:
    acc.outcome("viol_validator")
    acc.violation(sig + "|validator", "validator %s a shape whose documented "
                  "status is %s" % ("rejected" if rejected else "accepted",
                                    "reject" if documented_reject else
                                    "accept"), case)
    return
  if rejected:
    acc.outcome("blockify_rejected")
    return
  try:
    meta = ts._blocks_metadata(opts, sh, "w")
    bx = ts._blockify(jnp.asarray(x), meta)
    back = np.asarray(ts._deblockify(bx, meta))
    bx = np.asarray(bx)
  except Exception as e:  # pylint: disable=broad-except
    acc.outcome("viol_blockify_exc")
    acc.violation(sig + "|exc2", "blockify raised %s: %s" %
                  (type(e).__name__, str(e)[:200]), case)
    return
  if not np.array_equal(back, x):
    acc.outcome("viol_blockify_roundtrip")
    acc.violation(sig + "|roundtrip", "deblockify(blockify(x)) != x", case)
    return
  # independent slice enumeration: large axes are cut into bs-sized blocks,
  # blocks ordered row-major over (left blocks, right blocks)
  large = [i for i, d in enumerate(sh) if d >= bs]
  ranges = [[(a, a + bs) for a in range(0, d, bs)] if i in large else [(0, d)]
            for i, d in enumerate(sh)]
  want = [x[tuple(slice(a, b) for a, b in combo)]
          for combo in itertools.product(*ranges)]
  bax = min(large) if large else 0
  if bx.shape[bax] != len(want) or meta.num_blocks != len(want):
    acc.outcome("viol_blockify_count")
    acc.violation(sig + "|count", "number of blocks %d != %d" %
                  (bx.shape[bax], len(want)), case)
    return
  for i, w in enumerate(want):
    got = np.take(bx, i, axis=bax)
    if got.shape != w.shape or not np.array_equal(got, w) or \
        any(d > bs for d in got.shape):
      acc.outcome("viol_blockify_blocks")
      acc.violation(sig + "|blocks", "block %d is not the contiguous "
                    "sub-tensor" % i, case)
      return
  if list(meta.block_sizes) != [min(d, bs) for d in sh]:
    acc.violation(sig + "|sizes", "block_sizes metadata wrong", case)
    return
  acc.outcome("blockify_ok")


def check_reshaper(acc, sh, bs, limit):
  import jax.numpy as jnp
  from precondition.tearfree import reshaper
  acc.transitions += 1
  sig = "C06|reshaper|%s|b%d|m%d" % (sh, bs, limit)
  case = {"routine": "reshaper", "shape": sh, "block": bs, "merge": limit}
  x = np.arange(1, math.prod(sh) + 1, dtype=np.float32).reshape(sh)
  try:
    opts = reshaper.Options(merge_dims=limit, block_size=bs)
    m = reshaper.merge(opts)
    u = reshaper.unmerge(opts)
  except ValueError:
    if limit < 2 or (bs < 2 and bs != 0):
      acc.outcome("reshaper_rejected")
    else:
      acc.violation(sig + "|reject", "options rejected unexpectedly", case)
    return
  try:
    p = {"w": jnp.asarray(x)}
    mx, _ = m.update(p, m.init(p), p)
    back, _ = u.update(mx, u.init(p), p)
    mx = np.asarray(mx["w"])
    back = np.asarray(back["w"])
  except Exception as e:  # pylint: disable=broad-except
    acc.outcome("viol_reshaper_exc")
    acc.violation(sig + "|exc", "reshaper raised %s: %s" %
                  (type(e).__name__, str(e)[:200]), case)
    return
  if back.shape != x.shape or not np.array_equal(back, x):
    acc.outcome("viol_reshaper_roundtrip")
    acc.violation(sig + "|roundtrip", "unmerge(merge(x)) != x", case)
    return
  # the tensor that is merged is the update; the parameters only give the
  # shapes.  A float32 update next to bfloat16 parameters must come back
  # bit for bit (values that bfloat16 cannot hold)
  try:
    xf = (x * np.float32(1.0 + 2.0**-12)).astype(np.float32)
    pb = {"w": jnp.asarray(x).astype(jnp.bfloat16)}
    uf = {"w": jnp.asarray(xf)}
    mx2, _ = m.update(uf, m.init(pb), pb)
    back2, _ = u.update(mx2, u.init(pb), pb)
    back2 = np.asarray(back2["w"])
  except Exception as e:  # pylint: disable=broad-except
    acc.outcome("viol_reshaper_exc")
    acc.violation(sig + "|exc_mixed", "reshaper raised %s: %s on a float32 "
                  "update with bfloat16 parameters" %
                  (type(e).__name__, str(e)[:200]), case)
    return
  if back2.dtype != np.float32 or not np.array_equal(back2, xf):
    acc.outcome("viol_reshaper_roundtrip_mixed_dtype")
    acc.violation(sig + "|roundtrip_mixed", "unmerge(merge(u)) != u for a "
                  "float32 update u next to bfloat16 parameters (dtype %s, "
                  "max |diff| %.3g)" % (back2.dtype, float(np.max(np.abs(
                      back2.astype(np.float64) - xf))) if back2.shape ==
                                        xf.shape else -1), case)
    return
  if mx.size < x.size or sorted(mx[mx != 0].tolist()) != sorted(
      x.ravel().tolist()):
    acc.outcome("viol_reshaper_loss")
    acc.violation(sig + "|loss", "merge lost or duplicated entries", case)
    return
  mxd = max(sh) if sh else 1
  for d in mx.shape:
    if bs and d >= bs and d % bs:
      acc.violation(sig + "|pad", "dim %d not padded to a multiple of %d" %
                    (d, bs), case)
      return
    lim = limit if not bs else (limit + bs - 1) // bs * bs
    if d > max(lim, (mxd + bs - 1) // bs * bs if bs else mxd):
      acc.violation(sig + "|limit", "merged/padded dim %d exceeds the "
                    "limit" % d, dict(case, merged=list(mx.shape)))
      return
  # row-major order preserved among real entries
  flat = mx.ravel()
  if not np.array_equal(flat[flat != 0], x.ravel()):
    acc.outcome("viol_reshaper_order")
    acc.violation(sig + "|order", "merge permuted the entries", case)
    return
  acc.outcome("reshaper_ok")


def plan(tier, seed):
  del seed
  B = 3 if tier == "quick" else 4
  maxrank = 5 if tier == "quick" else 5
  tasks = []
  shapes = list(all_shapes(maxrank, B))
  if tier != "quick":
    # rank 5 with dims up to 4 = 1024 shapes; keep them for the cheap
    # routines, Preconditioner cross product uses rank <= 4
    pass
  nchunk = 128 if tier == "quick" else 320
  for c in range(nchunk):
    tasks.append({"name": "shapes/c%d" % c, "B": B, "maxrank": maxrank,
                  "chunk": [c, nchunk], "tier": tier,
                  "profile": {"x64": False}})
  return {
      "tasks": tasks,
      "rule": "every shape of rank 0..%d with dims 1..%d x block sizes 1..%d "
              "(+0) x merge limits %s x preconditioner types x compression "
              "rank {0,1}; state = (routine, shape, options); non-trivial = "
              "shape with at least two elements" % (maxrank, B, B + 1,
                                                    MERGE_LIMITS),
      "bounds": {"B": B, "maxrank": maxrank, "shapes": len(shapes)},
      "assumptions": ["block arithmetic is periodic in the block size, so "
                      "dims <= B with block sizes <= B+1 exercise below/at/"
                      "above a multiple"],
  }


def run_task(task):
  acc = Acc(task["name"])
  B, maxrank = task["B"], task["maxrank"]
  c, k = task["chunk"]
  quick = task["tier"] == "quick"
  blocks = list(range(1, B + 2))
  for idx, sh in enumerate(all_shapes(maxrank, B)):
    if idx % k != c:
      continue
    nt = math.prod(sh) >= 2
    for limit in MERGE_LIMITS:
      acc.states += 1
      acc.nontrivial += int(nt)
      check_merge(acc, sh, limit)
    for bs in [0] + blocks:
      acc.states += 1
      acc.nontrivial += int(nt)
      check_partition(acc, sh, bs)
    for bs in blocks:
      acc.states += 1
      acc.nontrivial += int(nt)
      check_tearfree_blockify(acc, sh, bs)
      for limit in [2, 3, 4, 6, 16] + ([1] if bs == 2 else []):
        acc.states += 1
        check_reshaper(acc, sh, bs, limit)
    for limit in [2, 4, 16]:
      acc.states += 1
      check_reshaper(acc, sh, 0, limit)
    # Preconditioner: full cross product for low ranks, reduced above
    full_rank = 3 if quick else 4
    if len(sh) <= full_rank:
      combos = itertools.product(blocks, MERGE_LIMITS, [1, 2, 3], [0, 1])
    else:
      combos = itertools.product([2, B], [1, 4, 16], [1, 2, 3], [0, 1])
    for bs, limit, pt, cr in combos:
      acc.states += 1
      acc.nontrivial += int(nt)
      check_preconditioner(acc, sh, bs, limit, pt, cr, True)
    for bs, pt in itertools.product([2, B + 1], [1, 2, 3]):
      acc.states += 1
      check_preconditioner(acc, sh, bs, 4, pt, 0, False)
  # extra lattices with dims that are proper multiples of the block size
  # (tearfree only accepts exact multiples; two blocked axes need >= 2 blocks
  # on both to make a permutation visible)
  extra = []
  for r in range(1, 5):
    for sh in itertools.product([2, 3, 4, 6], repeat=r):
      extra.append(("tf", sh))
  for sh in [(8, 4), (4, 8), (9, 6), (2, 8, 4), (8, 3, 8), (6, 9), (8, 8)]:
    extra.append(("tf", sh))
  for r in range(1, 3):
    for sh in itertools.product(range(1, 7), repeat=r):
      extra.append(("part", sh))
  for sh in itertools.product([2, 4, 5], repeat=3):
    extra.append(("part", sh))
  for idx, (kind, sh) in enumerate(extra):
    if idx % k != c:
      continue
    if kind == "tf":
      for bs in [2, 3, 4]:
        acc.states += 1
        acc.nontrivial += 1
        check_tearfree_blockify(acc, sh, bs)
        if len(sh) <= 2:
          acc.states += 1
          check_reshaper(acc, sh, bs, 2)
    else:
      for bs in [1, 2, 3, 4]:
        acc.states += 1
        acc.nontrivial += 1
        check_partition(acc, sh, bs)
  return acc.result()
