"""C11 - quantized state round-trips within half a bucket and never wraps.

Depth-1 exhaustive lattices over the real QuantizedValue.from_float_value /
to_float:  column max-abs M over every finite float32 exponent (and
subnormals) x 8 mantissas; column entries = every bucket boundary
(k+1/2)*bucket and its two float32 neighbours, every k*bucket, +-M and 0.
Layouts rank 1..3, eager and jitted (XLA's division depends on fusion/layout).
"""
import numpy as np

from mc.lib import Acc

MANTS = [1.0, 1.125, 1.25, 1.5, 1.75, 2.0 - 2.0**-23, 1.3333334, 1.7182819]
SUBNORMAL_M = [2.0**-127, 2.0**-130, 2.0**-140, 3 * 2.0**-149, 2.0**-149]
FLT_MAX = float(np.finfo(np.float32).max)


def nbuckets(dt):
  return 127 if dt == "int8" else 32767


def column_maxes(exps):
  ms = []
  for e in exps:
    for m in MANTS:
      v = np.float32(m) * np.float32(2.0)**np.float32(e) if e < 127 else \
          np.float32(m * 2.0**127)
      v = float(np.float32(m * 2.0**e)) if m * 2.0**e <= FLT_MAX else FLT_MAX
      ms.append(v)
  return ms


def build_columns(ms, nb, ks):
  """(entries, columns) float32 matrix; column j has max-abs ms[j]."""
  ms64 = np.asarray(ms, dtype=np.float64)
  b = ms64 / nb
  rows = []
  ks = np.asarray(ks, dtype=np.float64)
  half = (ks[:, None] + 0.5) * b[None, :]
  half32 = half.astype(np.float32)
  up = np.nextafter(half32, np.float32(np.inf))
  dn = np.nextafter(half32, np.float32(-np.inf))
  whole = ((ks[:, None] + 1.0) * b[None, :]).astype(np.float32)
  for a in (half32, up, dn, whole):
    rows.append(a)
    rows.append(-a)
  m32 = ms64.astype(np.float32)[None, :]
  rows.append(m32)
  rows.append(-m32)
  rows.append(np.zeros_like(m32))
  x = np.concatenate(rows, axis=0)
  # never exceed the intended column max
  x = np.clip(x, -m32, m32)
  return x


def ulp32(m):
  m = np.asarray(m, dtype=np.float64)
  e = np.floor(np.log2(np.maximum(m, 2.0**-126)))
  return 2.0**(e - 23)


def classify(m, nb):
  """Known-finding classes are predicates over the *input* column."""
  if m < nb * 2.0**-126:
    return "bucket_underflow"
  if m >= FLT_MAX:
    return "fltmax"
  return "regular"


def check_tensor(acc, x, dt, mode, layout, col_m, extract_diagonal=False,
                 tag=""):
  """x: np.float32 array; col_m: per-column intended max-abs (flattened)."""
  import jax
  import jax.numpy as jnp
  from precondition.quantization_utils import QuantizedValue
  jdt = {"int8": jnp.int8, "int16": jnp.int16}[dt]
  nb = nbuckets(dt)

  def roundtrip(v):
    q = QuantizedValue.from_float_value(v, jdt, extract_diagonal)
    f = q.to_float()
    q2 = QuantizedValue.from_float_value(f, jdt, extract_diagonal)
    return q.quantized, q.bucket_size, f, q2.quantized, q2.to_float(), \
        (q.diagonal if extract_diagonal else jnp.zeros(()))

  fn = jax.jit(roundtrip) if mode == "jit" else roundtrip
  qi, bs, f, qi2, f2, diag = [np.asarray(a) for a in fn(jnp.asarray(x))]
  acc.transitions += 3
  if f.shape != x.shape or qi.shape != x.shape or \
      bs.shape != tuple(x.shape[1:]) or f2.shape != x.shape:
    # one bucket per column: the bucket array is laid out like x[0]
    acc.states += 1
    acc.outcome("viol_layout")
    acc.violation(
        "C11|%s|%s|%s|layout|%s|%s" % (dt, mode, layout, x.shape, tag),
        "tensor of shape %s: integers %s, bucket sizes %s (one per column "
        "means %s), dequantized %s" % (x.shape, qi.shape, bs.shape,
                                       tuple(x.shape[1:]), f.shape),
        {"dtype": dt, "mode": mode, "layout": layout, "shape": list(x.shape),
         "tag": tag}, kf={"input_class": "regular", "kind": "layout"})
    return
  x64 = x.astype(np.float64)
  f64 = f.astype(np.float64)
  if extract_diagonal:
    off = x64 - np.diag(np.diag(x64))
    m_act = np.max(np.abs(off), axis=0)
  else:
    m_act = np.max(np.abs(x64), axis=0)
  bucket = m_act / nb
  with np.errstate(invalid="ignore", over="ignore"):
    err = np.abs(f64 - x64)
    bound = bucket / 2 + 2 * ulp32(m_act)
    bad_err = ~(err <= bound[None, ...])
  bad_wrap = qi == np.iinfo(qi.dtype).min
  bad_zero = (x == 0) & (f != 0)
  if extract_diagonal:
    n = x.shape[0]
    eye = np.eye(n, dtype=bool)
    bad_zero = bad_zero & ~eye
    bad_err = bad_err & ~eye
    bad_diag = np.diag(f) != np.diag(x)
    # with FTZ a subnormal diagonal entry is flushed by any arithmetic;
    # the diagonal pool only contains normal numbers.
  else:
    bad_diag = np.zeros((), bool)
  # re-quantization is only meaningful where the dequantized column is
  # finite (a non-finite one is already reported above)
  fin_col = np.isfinite(f64).all(axis=0)
  bad_idem = (qi != qi2) & fin_col[None, ...]
  ncols = int(np.prod(x.shape[1:])) if x.ndim > 1 else 1
  acc.evaluations += int(x.size)
  colm = np.asarray(m_act).reshape(-1) if x.ndim > 1 else \
      np.asarray([float(m_act)])
  classes = [classify(float(m), nb) for m in colm]
  acc.states += ncols
  acc.nontrivial += int(sum(1 for m in colm if m > 0))

  def report(kind, mask):
    mask2 = mask.reshape(mask.shape[0], -1) if mask.ndim > 1 else \
        mask.reshape(-1, 1)
    cols = np.where(mask2.any(axis=0))[0]
    for c in cols:
      cls = classes[c] if len(classes) > 1 else classes[0]
      r = int(np.where(mask2[:, c])[0][0])
      xv = x.reshape(x.shape[0], -1)[r, c] if x.ndim > 1 else x[r]
      fv = f.reshape(f.shape[0], -1)[r, c] if f.ndim > 1 else f[r]
      case = {"dtype": dt, "mode": mode, "layout": layout, "tag": tag,
              "column_maxabs": float(colm[c]), "entry": float(xv),
              "dequantized": float(fv), "bucket": float(colm[c] / nb),
              "kind": kind, "extract_diagonal": extract_diagonal}
      acc.outcome("viol_%s_%s" % (kind, cls))
      acc.violation(
          "C11|%s|%s|%s|%s|M=%r|%s" % (dt, mode, layout, kind,
                                        float(colm[c]), tag),
          "%s: column max-abs %.9g (%s), entry %.9g dequantized to %.9g, "
          "half bucket %.3g" % (kind, colm[c], cls, xv, fv, colm[c] / nb / 2),
          case, kf={"input_class": cls, "kind": kind},
          replay_task=None)

  report("error_gt_half_bucket", bad_err)
  report("wrap_most_negative", bad_wrap)
  report("zero_not_exact", bad_zero)
  report("requantize_differs", bad_idem)
  if extract_diagonal and bad_diag.any():
    acc.outcome("viol_diag")
    acc.violation("C11|%s|%s|diag|%s" % (dt, mode, tag),
                  "extracted diagonal not reproduced exactly",
                  {"dtype": dt, "mode": mode, "tag": tag,
                   "diag": np.diag(x).tolist(), "got": np.diag(f).tolist()},
                  kf={"input_class": "regular", "kind": "diag"})
  nbad = int(bad_err.sum() + bad_wrap.sum() + bad_zero.sum() + bad_idem.sum())
  if nbad == 0:
    acc.outcome("ok_tensor")
  acc.outcome("columns_" + "regular", sum(1 for c in classes if c == "regular"))
  acc.outcome("columns_known_class",
              sum(1 for c in classes if c != "regular"))
  acc.sample({"dtype": dt, "mode": mode, "layout": layout, "shape": x.shape,
              "first_column_maxabs": float(colm[0]),
              "first_entries": x.reshape(x.shape[0], -1)[:4, 0].tolist()
              if x.ndim > 1 else x[:4].tolist()})


def run_sharded_declared(acc):
  """Sharded optimizer with quantized momentum: the layout declared for
  allocation/restore (shape_and_dtype_fn) must be the layout of the live
  quantized state - in particular one bucket per column, x.shape[1:], for
  parameters of every rank."""
  import jax
  import jax.numpy as jnp
  from jax.sharding import Mesh
  from mc import ds
  for shapes in ({"t": [3, 5, 2], "m": [4, 3]}, {"q": [2, 3, 2, 2], "v": [3]},
                 {"u": [3, 1, 4]}):
    acc.states += 1
    acc.nontrivial += 1
    acc.transitions += 1
    case = {"shapes": shapes}
    sig = "C11|sharded_declared|%s" % (sorted(shapes.items()),)
    runner = ds.Runner({"best_effort_memory_usage_reduction": True,
                        "best_effort_shape_interpretation": False}, shapes,
                       "sharded")
    with Mesh(np.array(jax.devices()[:1]), ("x",)):
      state = runner.init()
    sd = runner.init_fns.shape_and_dtype_fn(runner.params)
    is_sd = lambda x: isinstance(x, list) and len(x) == 2 and \
        isinstance(x[0], (list, tuple)) and not isinstance(x[1], list)
    a = jax.tree_util.tree_leaves(state)
    b = jax.tree_util.tree_leaves(sd, is_leaf=is_sd)
    bad = None
    if len(a) != len(b):
      bad = "%d live leaves, %d declared" % (len(a), len(b))
    else:
      for i, (x, y) in enumerate(zip(a, b)):
        if tuple(x.shape) != tuple(y[0]) or jnp.dtype(x.dtype) != \
            jnp.dtype(y[1]):
          bad = "leaf %d is %s %s, declared %s %s" % (
              i, tuple(x.shape), x.dtype, tuple(y[0]), jnp.dtype(y[1]))
          break
    from precondition.quantization_utils import QuantizedValue
    is_q = lambda x: isinstance(x, QuantizedValue)
    for q in jax.tree_util.tree_leaves(state, is_leaf=is_q):
      if is_q(q) and q.quantized_dtype == jnp.int8 and \
          hasattr(q.quantized, "shape") and \
          tuple(q.bucket_size.shape) != tuple(q.quantized.shape[1:]):
        bad = "live int8 momentum of shape %s has bucket sizes %s" % (
            tuple(q.quantized.shape), tuple(q.bucket_size.shape))
    if bad:
      acc.outcome("viol_sharded_declared_layout")
      acc.violation(sig, "sharded quantized state and its declared layout "
                    "disagree: " + bad, case,
                    kf={"input_class": "regular", "kind": "ds_carry"})
    else:
      acc.outcome("sharded_declared_layout_ok")


def run_ds_carry(acc, task):
  """distributed_shampoo with quantized state, all histories over {gA,gB}:
  every stored QuantizedValue is a fixed point of dequantize -> quantize
  (same integers, same bucket sizes, same diagonal), and a preconditioner
  that is carried over a non-refresh step keeps its bits."""
  import itertools
  import jax
  import jax.numpy as jnp
  from mc import ds
  from mc.lib import tree_hash
  from precondition.quantization_utils import QuantizedValue
  P = task["P"]
  shapes = {"v": [3], "m": [4, 6]}
  b2 = 1.0 if P == 3 else 0.999
  cfg = {"best_effort_memory_usage_reduction": True, "beta1": 0.9,
         "preconditioning_compute_steps": P, "start_preconditioning_step": 1,
         "graft_type": 3, "beta2": b2,
         "best_effort_shape_interpretation": False}
  runner = ds.Runner(cfg, shapes, "pmap")
  # gD: half of the rows scaled by 2^-14, so the columns of a statistic get
  # buckets of very different size; g0 with beta2 = 1 leaves the statistics
  # where they are
  events = ["gA", "gB", "gD", "g0"]
  alpha = ds.grad_trees(shapes, events, (0, 4))
  from mc.ref import shampoo as ref
  full = dict(ref.BASE, **cfg)
  leaves = {n: ref.Leaf(full, shapes[n], runner.params_np[n])
            for n in shapes}
  is_q = lambda x: isinstance(x, QuantizedValue)

  def quantized_leaves(state):
    out = []
    host = jax.tree_util.tree_map(lambda x: np.asarray(x)[0], state)
    for path, q in jax.tree_util.tree_flatten_with_path(
        host, is_leaf=is_q)[0]:
      if is_q(q) and q.quantized_dtype in (jnp.int8, jnp.int16):
        out.append((jax.tree_util.keystr(path), q))
    return out

  s0 = runner.init()
  frontier = [(s0, ())]
  seen = {tree_hash(runner.host(s0))}
  for _ in range(task["depth"]):
    nxt = []
    for s, hist in frontier:
      for ev in events:
        _, s2 = runner.step(s, alpha[ev])
        h2 = hist + (ev,)
        t = len(hist)
        acc.transitions += 1
        qs1 = dict(quantized_leaves(s))
        # the stored statistic is the quantization of
        # w1 * dequantize(previous) + w2 * G G^T: per column within half a
        # bucket of it (diagonal exact to float32)
        for n in shapes:
          lf = leaves[n].copy()
          old_st = runner.leaf_stats(s, n)["statistics"]
          new_st = runner.leaf_stats(s2, n)
          lf.stats = [np.asarray(x, np.float64) for x in old_st]
          lf.update_stats(alpha[ev][n].astype(np.float64))
          for k_, (want, got, raw) in enumerate(zip(
              lf.stats, new_st["statistics"], new_st["raw_statistics"])):
            got = np.asarray(got, np.float64)
            off = ~np.eye(want.shape[0], dtype=bool)
            bucket = np.max(np.abs(want) * off, axis=0) / 32767.0
            bound = bucket / 2 + 4 * ulp32(np.max(np.abs(want), axis=0))
            acc.states += 1
            bad = (np.abs(got - want) > bound[None, :] * 1.001) & off
            case = {"history": list(h2), "leaf": n, "statistic": k_,
                    "interval": P, "beta2": b2}
            if bad.any():
              j = int(np.where(bad.any(axis=0))[0][0])
              acc.outcome("viol_statistics_not_within_half_bucket")
              acc.violation(
                  "C11|ds_carry|P%d|%s|%s|stat%d|eq" % (P, ",".join(h2), n,
                                                       k_),
                  "stored int16 statistic is more than half a bucket away "
                  "from w1*dequantize(previous) + w2*G G^T in column %d: "
                  "max |diff| %.3g, half bucket %.3g" %
                  (j, float(np.max(np.abs(got - want)[:, j] * off[:, j])),
                   float(bucket[j] / 2)), case,
                  kf={"input_class": "regular", "kind": "ds_carry"})
            else:
              acc.outcome("statistics_within_half_bucket")
            if ev == "g0" and b2 == 1.0 and t > 0:
              prev_raw = runner.leaf_stats(s, n)["raw_statistics"][k_]
              if not all(np.array_equal(a, b) for a, b in zip(prev_raw, raw)):
                acc.outcome("viol_statistics_drift")
                acc.violation(
                    "C11|ds_carry|P%d|%s|%s|stat%d|drift" % (
                        P, ",".join(h2), n, k_),
                    "zero gradient with beta2 = 1: the stored quantized "
                    "statistic changed", case,
                    kf={"input_class": "regular", "kind": "ds_carry"})
        for name, q in quantized_leaves(s2):
          acc.states += 1
          acc.nontrivial += 1
          case = {"history": list(h2), "leaf": name, "interval": P,
                  "dtype": str(jnp.dtype(q.quantized_dtype))}
          sig = "C11|ds_carry|P%d|%s|%s" % (P, ",".join(h2), name)
          f = q.to_float()
          q2 = QuantizedValue.from_float_value(
              f, q.quantized_dtype, q.extract_diagonal)
          same = np.array_equal(np.asarray(q2.quantized),
                                np.asarray(q.quantized)) and \
              np.allclose(np.asarray(q2.bucket_size),
                          np.asarray(q.bucket_size), rtol=1e-6, atol=0) and \
              all(np.array_equal(np.asarray(a), np.asarray(b))
                  for a, b in zip(jax.tree_util.tree_leaves(q2.diagonal),
                                  jax.tree_util.tree_leaves(q.diagonal)))
          if not same:
            acc.outcome("viol_state_not_fixed_point")
            acc.violation(sig + "|fix", "stored quantized state is not a "
                          "fixed point of dequantize -> quantize (integers, "
                          "bucket sizes max-abs/N or diagonal differ)", case,
                          kf={"input_class": "regular", "kind": "ds_carry"})
            continue
          if "preconditioners" in name and t % P != 0:
            a, b = qs1[name], q
            if not all(np.array_equal(np.asarray(x), np.asarray(y)) for x, y
                       in zip(jax.tree_util.tree_leaves(a),
                              jax.tree_util.tree_leaves(b))):
              acc.outcome("viol_carried_state_drifts")
              acc.violation(sig + "|carry", "quantized preconditioner "
                            "carried over non-refresh step %d changed" % t,
                            case, kf={"input_class": "regular",
                                      "kind": "ds_carry"})
              continue
            acc.outcome("carried_bit_identical")
          else:
            acc.outcome("stored_fixed_point")
        k = tree_hash(runner.host(s2))
        if k in seen:
          continue
        seen.add(k)
        nxt.append((s2, h2))
    frontier = nxt


def plan(tier, seed):
  del seed
  tasks = []
  exps_all = list(range(-126, 128))
  echunks = [exps_all[i:i + 32] for i in range(0, len(exps_all), 32)]
  for dt in ["int8", "int16"]:
    nb = nbuckets(dt)
    if dt == "int8":
      kchunks = [[0, nb]]
      stride = 1
    elif tier == "quick":
      kchunks = [[0, nb]]
      stride = 64
    else:
      kchunks = [[a, min(a + 2048, nb)] for a in range(0, nb, 2048)]
      stride = 1
    for mode in ["eager", "jit"]:
      for layout in ["r2", "r3", "r1"]:
        for ci, ec in enumerate(echunks):
          for kc in kchunks:
            if layout != "r2" and tier == "quick" and dt == "int16":
              # rank 1/3 int16 quick: every 256th boundary
              st = stride * 4
            else:
              st = stride
            if layout == "r1" and tier != "quick" and dt == "int16" \
                and kc[0] % 8192 != 0:
              continue
            tasks.append({"name": "%s/%s/%s/e%d/k%d" % (dt, mode, layout, ci,
                                                         kc[0]),
                          "kind": "lattice", "dtype": dt, "mode": mode,
                          "layout": layout, "exps": ec, "krange": kc,
                          "kstride": st, "sub": ci == 0,
                          "part": "lattice_" + dt,
                          "profile": {"x64": False}})
  for dt in ["int8", "int16"]:
    for mode in ["eager", "jit"]:
      tasks.append({"name": "%s/%s/diag" % (dt, mode), "kind": "diag",
                    "dtype": dt, "mode": mode, "part": "diag_const_zero",
                    "profile": {"x64": False}})
  for dt in ["int8", "int16"]:
    tasks.append({"name": "%s/shapes" % dt, "kind": "shapes", "dtype": dt,
                  "part": "unit_axes", "profile": {"x64": False}})
  # the optimizer's own quantized state (int16 statistics/preconditioners,
  # int8 momentum) under pmap: what is carried must not drift
  for P in (2, 3):
    tasks.append({"name": "ds_carry/P%d" % P, "kind": "ds_carry", "P": P,
                  "depth": 3 if tier == "quick" else 4, "part": "ds_carry",
                  "profile": {"x64": False}})
  tasks.append({"name": "sharded_declared", "kind": "sharded_declared",
                "part": "ds_carry", "profile": {"x64": False}})
  tasks.append({"name": "passthrough", "kind": "passthrough",
                "part": "passthrough", "profile": {"x64": False}})
  return {
      "tasks": tasks,
      "rule": "every column max-abs m*2^e (8 mantissas x 254 exponents + 5 "
              "subnormals) x every bucket boundary (k+1/2)b +-1ulp and k*b "
              "(int8 all; int16 all in thorough, strided in quick) x layouts "
              "rank 1..3 x eager/jit; state = one column; non-trivial = "
              "column with non-zero max-abs",
      "bounds": {"tier": tier},
      "assumptions": ["XLA CPU backend (flush-to-zero, observed)",
                      "float32 inputs; rank <= 3; every shape over dims "
                      "{1,2,3} for the layout of integers/bucket sizes"],
  }


def run_task(task):
  acc = Acc(task["name"])
  if task["kind"] == "lattice":
    dt = task["dtype"]
    nb = nbuckets(dt)
    ms = column_maxes(task["exps"])
    if task.get("sub"):
      ms = ms + SUBNORMAL_M
    ks = list(range(task["krange"][0], task["krange"][1], task["kstride"]))
    if ks and ks[-1] != nb - 1 and task["krange"][1] >= nb:
      ks.append(nb - 1)
    layout = task["layout"]
    if layout == "r2":
      x = build_columns(ms, nb, ks)
      check_tensor(acc, x, dt, task["mode"], layout, ms)
    elif layout == "r3":
      if len(ms) % 2:
        ms = ms + [1.0]
      x = build_columns(ms, nb, ks)
      x = x.reshape(x.shape[0], 2, len(ms) // 2)
      check_tensor(acc, x, dt, task["mode"], layout, ms)
    else:
      # rank 1: one bucket for the whole vector -> one call per column
      sel = ms[::4]
      for m in sel:
        x = build_columns([m], nb, ks).reshape(-1)
        check_tensor(acc, x, dt, task["mode"], layout, [m],
                     tag="M=%r" % m)
  elif task["kind"] == "diag":
    dt = task["dtype"]
    nb = nbuckets(dt)
    pool_d = [0.0, 1.0, -3.5, 1e-30, 1e30, 2.0**-120, FLT_MAX / 4, 7.25e-6]
    pool_o = [0.0, 1.0, -1.0, 0.37, 1e-20, -1e20, 3.0, 2.0**-100]
    cnt = 0
    for n in (1, 2, 3, 5):
      for shift in range(len(pool_d)):
        d = [pool_d[(i + shift) % len(pool_d)] for i in range(n)]
        for oshift in range(len(pool_o)):
          a = np.zeros((n, n), np.float32)
          for i in range(n):
            for j in range(n):
              if i != j:
                a[i, j] = pool_o[(i * 3 + j * 5 + oshift) % len(pool_o)]
          a = a + np.diag(np.asarray(d, np.float32))
          a = a.astype(np.float32)
          check_tensor(acc, a, dt, task["mode"], "square", None,
                       extract_diagonal=True, tag="n%d/s%d/o%d" %
                       (n, shift, oshift))
          cnt += 1
    # constant and zero columns, mixed signs
    for m in [1.0, 3e-5, 1e20, 2.0**-100]:
      col_const = np.full((6, 1), m, np.float32)
      col_neg = np.full((6, 1), -m, np.float32)
      col_zero = np.zeros((6, 1), np.float32)
      col_mixed = np.asarray([[m], [-m], [m / 2], [-m / 3], [0], [m / 254]],
                             np.float32)
      x = np.concatenate([col_const, col_neg, col_zero, col_mixed], axis=1)
      check_tensor(acc, x, dt, task["mode"], "const_zero", None,
                   tag="c%r" % m)
    # near-overflow magnitudes in single-column and rank-1 layouts
    for m in [FLT_MAX, FLT_MAX / 2, float(np.float32(2.0**127))]:
      for shape in [(3, 1), (3,), (1, 3), (2, 3, 1)]:
        x = np.full(shape, m, np.float32)
        x.flat[0] = -m
        check_tensor(acc, x, dt, task["mode"], "near_overflow%s" % (shape,),
                     None, tag="m%r" % m)
  elif task["kind"] == "ds_carry":
    run_ds_carry(acc, task)
  elif task["kind"] == "sharded_declared":
    run_sharded_declared(acc)
  elif task["kind"] == "shapes":
    # every shape of rank 1..3 over dims {1,2,3} (unit axes in every
    # position), columns at scales 2^-20 .. 2^20 with sign changes and zeros
    import itertools
    dt = task["dtype"]
    nb = nbuckets(dt)
    for rank in (1, 2, 3):
      for shape in itertools.product((1, 2, 3), repeat=rank):
        ncol = int(np.prod(shape[1:])) if rank > 1 else 1
        scales = [2.0**(20 * ((j % 3) - 1)) * (1 + j / 8.0)
                  for j in range(ncol)]
        base = np.asarray([1.0, -0.37, 0.0][:shape[0]])
        cols = np.stack([np.roll(base, j) * sc if shape[0] > 1 else
                         base * sc for j, sc in enumerate(scales)], axis=1)
        x = cols.reshape(shape).astype(np.float32)
        for mode in ("eager", "jit"):
          check_tensor(acc, x, dt, mode, "shape%s" % (shape,), None,
                       tag="unit_axes")
  else:
    import jax.numpy as jnp
    from precondition.quantization_utils import QuantizedValue
    vals = np.asarray(column_maxes(range(-126, 128, 7)) + [0.0, -1.5, FLT_MAX],
                      np.float32)
    for shape in [(-1,), (3, -1), (3, 2, -1)]:
      x = np.resize(vals, (vals.size // 6) * 6).reshape(shape)
      q = QuantizedValue.from_float_value(jnp.asarray(x), jnp.float32)
      acc.transitions += 2
      acc.states += 1
      acc.nontrivial += 1
      acc.evaluations += x.size
      if not np.array_equal(np.asarray(q.to_float()), x):
        acc.violation("C11|float32|%s" % (shape,), "float32 pass-through is "
                      "not the identity", {"shape": shape},
                      kf={"input_class": "regular", "kind": "passthrough"})
      qb = QuantizedValue.from_float_value(jnp.asarray(x), jnp.bfloat16)
      fb = np.asarray(qb.to_float()).astype(np.float64)
      ok = np.abs(fb - x.astype(np.float64)) <= np.abs(
          x.astype(np.float64)) * 2.0**-8
      big = np.abs(x) > 3.38e38  # rounds to bf16 inf: outside bf16 range
      if not np.all(ok | big) or np.any((x == 0) & (fb != 0)):
        acc.violation("C11|bfloat16|%s" % (shape,), "bfloat16 round trip "
                      "error above 2^-8 relative", {"shape": shape},
                      kf={"input_class": "regular", "kind": "passthrough"})
      acc.outcome("passthrough_ok")
      acc.sample({"shape": x.shape, "dtype": "float32/bfloat16"})
    # pass-through storage dtypes with extract_diagonal on square matrices:
    # zeros and the diagonal must still come back exactly
    import jax
    for n in (1, 2, 3, 5):
      a = np.resize(vals[3::5], n * n).reshape(n, n).astype(np.float32)
      a[0, -1] = 0.0
      for dt, name in ((jnp.float32, "float32"), (jnp.bfloat16, "bfloat16")):
        for mode in ("eager", "jit"):
          f = lambda v, dt=dt: QuantizedValue.from_float_value(
              v, dt, True).to_float()
          got = np.asarray((jax.jit(f) if mode == "jit" else f)(
              jnp.asarray(a)))
          acc.transitions += 2
          acc.states += 1
          acc.nontrivial += 1
          acc.evaluations += a.size
          want_diag = np.diag(a) if name == "float32" else np.asarray(
              jnp.asarray(np.diag(a)).astype(jnp.bfloat16).astype(
                  jnp.float32))
          ok = np.array_equal(np.diag(got), want_diag) and \
              np.all(got[a == 0] == 0)
          if name == "float32":
            ok = ok and np.array_equal(got, a)
          if not ok:
            acc.outcome("viol_passthrough_diag")
            acc.violation("C11|%s|%s|n%d|diag" % (name, mode, n),
                          "%s storage with extract_diagonal: diagonal %s came "
                          "back as %s" % (name, np.diag(a).tolist(),
                                          np.diag(got).tolist()),
                          {"dtype": name, "mode": mode, "n": n},
                          kf={"input_class": "regular",
                              "kind": "passthrough_diag"})
          else:
            acc.outcome("passthrough_diag_ok")
  return acc.result()
