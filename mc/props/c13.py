"""C13 - device-count invariance of the distributed preconditioner computation.

mcx over the product D (forced host devices) x parameter trees (number of
statistics N covering the residues modulo D) x preconditioner representation
x all gradient histories {gA,gB}^<=T: the data-parallel optimizer under
jax.pmap on D devices must give, on every device, the updates and state of the
one-device run; the sharded optimizer must give the same per-parameter results
for every declared device count (on a 1-device mesh and on real meshes).
"""
import numpy as np

from mc.lib import Acc, maxabs, leaves_equal_bitwise

VARIANTS = {
    "full": {},
    "quant": {"best_effort_memory_usage_reduction": True},
    "compressed": {"compression_rank": 1, "block_size": 8},
    "reuse": {"reuse_preconditioner": True, "eigh": True},
    # frequent directions: the only root that reads the previous
    # preconditioner of its own replica slice
    "fd": {"compression_rank": 2, "block_size": 8,
           "frequent_directions": True, "reuse_preconditioner": True},
    # the accept/keep decision is taken from gathered diagnostics even when
    # they are not stored
    "nometrics": {"generate_training_metrics": False},
    # a parameter excluded from preconditioning precedes the preconditioned
    # ones (index bookkeeping of the per-parameter views)
    "skipfirst": {"skip_preconditioning_rank_lt": 2},
    # refresh interval 2: the second step of every history is a skip step,
    # whose placeholder results must have the structure of a real refresh
    "interval2": {"preconditioning_compute_steps": 2},
}
SKIPFIRST_SHAPES = {"a_bias": [5], "kernel": [4, 3], "z": [3, 3]}
EVENTS = ["gA", "gB", "gBig1"]   # gBig1: first leaf times 2^60 (its root fails)


def tree_with_n_stats(n, compressed=False):
  """Merging is off in these runs: a vector has 1 statistic, a matrix 2."""
  big = [6, 7] if compressed else [2, 3]
  if n == 1:
    return {"a": [5] if compressed else [3]}
  shapes = {"m": big}
  sizes = [3, 2, 4, 5, 2, 3, 4, 5, 3, 2, 4, 5]
  for i in range(n - 2):
    shapes["v%02d" % i] = [sizes[i % len(sizes)] + (3 if compressed and i == 0
                                                    else 0)]
  return shapes


def plan(tier, seed):
  del seed
  if tier == "quick":
    Ds, Ns, depth = [1, 2, 3, 4], [1, 2, 3, 5, 6, 8], 2
    shard_counts, meshes = [1, 2, 3, 5], [2, 4]
  else:
    Ds, Ns, depth = list(range(1, 9)), [1, 2, 3, 4, 5, 6, 7, 8, 9, 10, 12,
                                        14], 3
    shard_counts, meshes = list(range(1, 9)), [2, 4, 8]
  tasks = []
  for var in VARIANTS:
    for n in Ns:
      if tier == "quick" and var in ("reuse", "fd", "nometrics") and \
          n not in (3, 5):
        continue
      if var == "skipfirst" and n != 3:
        continue
      for x64 in ([False] if var == "fd" else   # FD mixes dtypes under x64
                  [True] if tier == "quick" and n not in (3, 5)
                  else [True, False]):
        tasks.append({"name": "pmap/%s/N%d/%s" % (var, n, "f64" if x64
                                                   else "f32"),
                      "kind": "pmap", "variant": var, "n": n, "Ds": Ds,
                      "depth": depth, "x64": x64,
                      "profile": {"x64": x64, "devices": 8},
                      "part": "pmap_" + var, "weight": len(Ds)})
  for var in ["full", "compressed", "reuse", "skipfirst"]:
    for n in ([3, 5] if tier == "quick" else [1, 3, 5, 6, 7]):
      if var == "skipfirst" and n != 3:
        continue
      tasks.append({"name": "sharded/%s/N%d" % (var, n), "kind": "sharded",
                    "variant": var, "n": n, "counts": shard_counts,
                    "meshes": meshes, "depth": depth, "x64": True,
                    "profile": {"x64": True, "devices": 8},
                    "part": "sharded_" + var,
                    "weight": len(shard_counts) + len(meshes)})
  return {
      "tasks": tasks,
      "rule": "D in %s x trees with N in %s statistics x representations %s "
              "x all histories over {gA,gB} up to depth %d; sharded: declared "
              "device counts %s on a 1-device mesh and meshes %s; state = "
              "(D, history); non-trivial = D > 1" %
              (Ds, Ns, list(VARIANTS), depth, shard_counts, meshes),
      "bounds": {"D": Ds, "N": Ns, "depth": depth},
      "assumptions": ["forced host-platform CPU devices stand in for real "
                      "accelerators; single host"],
      "timeout": 3000,
  }


def histories(depth):
  out = [()]
  frontier = [()]
  for _ in range(depth):
    frontier = [h + (e,) for h in frontier for e in EVENTS]
    out += frontier
  return out


def cmp_trees(a, b, tol=2e-6):
  """Returns (ok, all_bitwise, worst_rel).

  Root diagnostics (training_metrics) are noise-level quantities (errors of
  1e-7, their ratios, iteration counts) whose last digits legitimately depend
  on the vmap batch size; they must agree in structure and finiteness and the
  reported errors within 1e-4 absolutely.  Everything that feeds training
  (statistics, preconditioners, momenta, accumulators, counters, updates) is
  compared to 2e-6 of the leaf's max-norm (one int16 bucket for quantized
  payloads); bit-identical leaves are counted separately.
  """
  import jax
  la, ta = jax.tree_util.tree_flatten_with_path(a)
  lb, tb = jax.tree_util.tree_flatten_with_path(b)
  if ta != tb or len(la) != len(lb):
    return False, False, float("inf")
  bit, worst, ok = True, 0.0, True
  for (pa, x), (_, y) in zip(la, lb):
    x, y = np.asarray(x), np.asarray(y)
    path = jax.tree_util.keystr(pa)
    if x.shape != y.shape or x.dtype != y.dtype:
      return False, False, float("inf")
    if leaves_equal_bitwise(x, y):
      continue
    bit = False
    xf, yf = x.astype(np.float64), y.astype(np.float64)
    if "training_metrics" in path:
      if not np.array_equal(np.isfinite(xf), np.isfinite(yf)):
        ok = False
      elif "inverse_pth_root_errors" in path and \
          maxabs(np.nan_to_num(xf) - np.nan_to_num(yf)) > 1e-4:
        ok = False
      continue
    if not (np.all(np.isfinite(xf)) and np.all(np.isfinite(yf))):
      if not np.array_equal(np.isnan(xf), np.isnan(yf)):
        return False, False, float("inf")
      xf, yf = np.nan_to_num(xf), np.nan_to_num(yf)
    if np.issubdtype(x.dtype, np.integer):
      rel = maxabs(xf - yf) / max(maxabs(yf), 1.0)
      lim = 2.0 / 32767 if x.dtype == np.int16 else 2.0 / 127
    else:
      rel = maxabs(xf - yf) / max(maxabs(yf), 1e-30)
      lim = tol
    worst = max(worst, rel)
    if rel > lim:
      ok = False
  return ok, bit, worst


def run_task(task):
  import jax
  from mc import ds
  acc = Acc(task["name"])
  var = task["variant"]
  cfg = dict(VARIANTS[var], best_effort_shape_interpretation=False)
  shapes = tree_with_n_stats(task["n"], compressed=(var in ("compressed",
                                                            "fd")))
  if var == "skipfirst":
    shapes = dict(SKIPFIRST_SHAPES)
  alpha = ds.grad_trees(shapes, ["gA", "gB"], (0, 4))
  first = sorted(shapes)[0]
  alpha["gBig1"] = dict(alpha["gA"])
  alpha["gBig1"][first] = (alpha["gA"][first] *
                           np.float32(2.0**60)).astype(np.float32)
  hists = histories(task["depth"])
  sigbase = "C13|" + task["name"]
  # float64 roots agree to float32 rounding across batch shapes; float32
  # roots are themselves only accurate to the Newton tolerance (1e-6)
  tol = 2e-6 if task.get("x64", True) else 2e-4

  def run_all(runner, nd):
    """{history: (updates per device, state per device)}"""
    res = {}
    states = {(): runner.init()}
    for h in hists:
      if not h:
        continue
      u, s2 = runner.step(states[h[:-1]], alpha[h[-1]])
      states[h] = s2
      if runner.mode == "pmap":
        res[h] = [(runner.host(u, d), runner.host(s2, d)) for d in range(nd)]
      else:
        res[h] = [(runner.host(u), runner.host(s2))]
    return res

  if task["kind"] == "pmap":
    ref = None
    for D in task["Ds"]:
      try:
        runner = ds.Runner(cfg, shapes, "pmap", ndev=D)
        res = run_all(runner, D)
      except Exception as e:  # pylint: disable=broad-except
        acc.outcome("viol_exception")
        acc.violation("%s|D%d|exc" % (sigbase, D), "pmap on %d devices "
                      "raised %s: %s" % (D, type(e).__name__, str(e)[:300]),
                      {"variant": var, "shapes": shapes, "D": D})
        continue
      if D == task["Ds"][0]:
        ref = res
      acc.outcome("N_mod_D=%d" % (task["n"] % D))
      for h in hists[1:]:
        for d in range(D):
          acc.states += 1
          acc.transitions += 1
          if D > 1:
            acc.nontrivial += 1
          ok, bit, worst = cmp_trees(res[h][d], ref[h][0], tol)
          acc.extra["worst_rel"] = max(acc.extra.get("worst_rel", 0.0),
                                       worst if np.isfinite(worst) else 0.0)
          if not ok:
            acc.outcome("viol_device_count")
            acc.violation(
                "%s|D%d|%s|dev%d" % (sigbase, D, ",".join(h), d),
                "device %d of %d gives a different update/state than the "
                "one-device run (N=%d statistics, rel %.3g)" %
                (d, D, task["n"], worst),
                {"variant": var, "shapes": shapes, "D": D,
                 "history": list(h), "device": d})
          else:
            acc.outcome("bitwise_equal" if bit else "equal_within_tol")
      acc.sample({"variant": var, "shapes": shapes, "D": D,
                  "N": task["n"], "histories": len(hists) - 1})
  else:
    ref = None
    runs = [("count", c, 1) for c in task["counts"]] + \
        [("mesh", m, m) for m in task["meshes"]]
    for kind, c, mesh in runs:
      try:
        runner = ds.Runner(cfg, shapes, "sharded", ndev_pjit=c, mesh=mesh)
        res = run_all(runner, 1)
      except Exception as e:  # pylint: disable=broad-except
        acc.outcome("viol_exception")
        acc.violation("%s|%s%d|exc" % (sigbase, kind, c), "sharded run with "
                      "%d declared devices (mesh %d) raised %s: %s" %
                      (c, mesh, type(e).__name__, str(e)[:300]),
                      {"variant": var, "shapes": shapes, "count": c,
                       "mesh": mesh})
        continue
      acc.outcome("N_mod_D=%d" % (task["n"] % c))
      if ref is None:
        ref = (runner, res)
      for h in hists[1:]:
        acc.states += 1
        acc.transitions += 1
        if c > 1:
          acc.nontrivial += 1
        u, s = res[h][0]
        u0, s0 = ref[1][h][0]
        # per-parameter results (the global arrays are padded to a multiple
        # of the declared count, so compare the per-parameter views)
        per = lambda r, st: {n: (r.leaf_stats(st, n)["statistics"],
                                 r.leaf_stats(st, n)["preconditioners"])
                             for n in shapes}
        ok1, bit1, w1 = cmp_trees(u, u0, tol)
        ok2, bit2, w2 = cmp_trees(per(runner, s), per(ref[0], s0), tol)
        ok3, bit3, w3 = cmp_trees(s.stats.local_stats, s0.stats.local_stats,
                                   tol)
        if not (ok1 and ok2 and ok3):
          acc.outcome("viol_device_count")
          acc.violation(
              "%s|%s%d|%s" % (sigbase, kind, c, ",".join(h)),
              "sharded results with %d declared devices (mesh %d) differ "
              "from the 1-device declaration (rel %.3g)" %
              (c, mesh, max(w1, w2, w3)),
              {"variant": var, "shapes": shapes, "count": c, "mesh": mesh,
               "history": list(h)})
        else:
          acc.outcome("bitwise_equal" if (bit1 and bit2 and bit3)
                      else "equal_within_tol")
      acc.sample({"variant": var, "shapes": shapes, "declared": c,
                  "mesh": mesh})
  return acc.result()
