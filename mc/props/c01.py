"""C01 - inverse p-th root accurate, reported error honest.

Depth-1 exhaustive enumeration of the input lattice
  A = scale * Q diag(lambda) Q^T, lambda a sorted multiset over a small value
  alphabet with top 1, Q in {I, Householder, generic(seed)},
  scale in {1e-6, 1, 1e6}, n in 1..N, padding k, p in 1..8,
  ridge (epsilon, relative/absolute), method in {Newton, eigh, LOBPCG}
against the real matrix_inverse_pth_root (called as the optimizer calls it:
vmapped, traced p and padding_start), x64 for honesty, float32 for the
structural clauses.
"""
import itertools

import numpy as np

from mc.lib import Acc, rng

U64 = 2.0**-52
THRESH = 0.1   # the optimizer's default acceptance threshold


def spectra(n, values):
  if n == 1:
    return [(1.0,)]
  out = []
  for rest in itertools.combinations_with_replacement(
      sorted(values, reverse=True), n - 1):
    out.append((1.0,) + tuple(rest))
  return out


def basis(n, kind, seed):
  if kind == "I" or n == 1:
    return np.eye(n)
  if kind == "H":
    v = np.ones(n) / np.sqrt(n)
    return np.eye(n) - 2 * np.outer(v, v)
  q, _ = np.linalg.qr(rng(seed, "c01", n).uniform(-1, 1, size=(n, n)))
  return q


def plan(tier, seed):
  tasks = []
  if tier == "quick":
    ns = [1, 2, 3, 4, 5]
    values = [0.0, 1e-8, 1e-4, 1e-2, 1.0]
    pads = [0, 2]
    epss = [(1e-6, True), (1e-12, True), (1e-3, False)]
  else:
    ns = [1, 2, 3, 4, 5, 6]
    values = [0.0, 1e-8, 1e-6, 1e-4, 1e-2, 1.0]
    pads = [0, 1, 3]
    epss = [(1e-6, True), (1e-12, True), (1e-3, False), (1e-9, False),
            (1e-4, True)]
  for n in ns:
    for pad in pads:
      for eps, rel in epss:
        for method in ["newton", "eigh"]:
          for x64 in [True, False]:
            if not x64 and (eps == 1e-12 or eps == 1e-9):
              continue
            tasks.append({
                "name": "%s/n%d/k%d/e%g%s/%s" % (method, n, pad, eps,
                                                 "r" if rel else "a",
                                                 "f64" if x64 else "f32"),
                "n": n, "pad": pad, "eps": eps, "rel": rel, "method": method,
                "values": values, "seed": seed, "x64": x64,
                "profile": {"x64": x64},
                "part": method + ("_f64" if x64 else "_f32"),
                "weight": len(spectra(n, values))})
  # Newton with an iteration budget below what the matrix needs: whatever
  # iterate comes back, the figure reported with it must be its own residual
  for n in ([3, 5] if tier == "quick" else [2, 3, 5, 6]):
    for iters in ([4, 8, 12] if tier == "quick" else [2, 4, 6, 8, 10, 12, 16]):
      for x64 in [True]:
        tasks.append({
            "name": "newton/n%d/k0/e1e-06r/f64/iters%d" % (n, iters),
            "n": n, "pad": 0, "eps": 1e-6, "rel": True, "method": "newton",
            "values": values, "seed": seed, "x64": x64, "num_iters": iters,
            "profile": {"x64": x64}, "part": "newton_budget",
            "weight": len(spectra(n, values))})
  # jax_enable_x64 switched on after the library was imported: the float64
  # working precision must be resolved when the routine is traced, not when
  # the module is loaded
  for n in [3, 5]:
    for method in ["newton", "eigh"]:
      tasks.append({
          "name": "%s/n%d/k0/e1e-06r/f64/x64late" % (method, n),
          "n": n, "pad": 0, "eps": 1e-6, "rel": True, "method": method,
          "values": values, "seed": seed, "x64": True,
          "profile": {"x64": True, "x64_late": True}, "part": "x64_late",
          "weight": len(spectra(n, values))})
  # a previous root handed in as `prev` (what reuse_preconditioner does):
  # the root of a nearby matrix with other eigenvectors; the figure reported
  # with the result must still be the result's own residual
  for n in [3, 5]:
    tasks.append({
        "name": "newton/n%d/k0/e1e-06r/f64/prev" % n,
        "n": n, "pad": 0, "eps": 1e-6, "rel": True, "method": "newton",
        "values": [1e-2, 1.0] if tier == "quick" else [1e-4, 1e-2, 1.0],
        "seed": seed, "x64": True, "with_prev": True,
        "profile": {"x64": True}, "part": "newton_prev",
        "weight": 30})
  # all-padding matrices (padding_start = 0)
  for method in ["newton", "eigh"]:
    tasks.append({"name": "%s/allpad" % method, "kind": "allpad",
                  "method": method, "profile": {"x64": True},
                  "part": "all_padding"})
  # LOBPCG-deflated Newton (needs n >= 6 for one deflated vector)
  for n in ([6] if tier == "quick" else [6, 7]):
    for pad, eps_l, rel_l in [(0, 1e-6, True), (0, 1e-3, False),
                              (2, 1e-3, False)]:
      tasks.append({"name": "lobpcg/n%d/k%d/e%g%s" % (n, pad, eps_l,
                                                     "r" if rel_l else "a"),
                    "n": n, "pad": pad,
                    "eps": eps_l, "rel": rel_l, "method": "lobpcg",
                    "values": [1e-4, 1e-2, 1.0] if tier == "quick" else
                    [1e-8, 1e-4, 1e-2, 1.0], "seed": seed, "x64": True,
                    "profile": {"x64": True}, "part": "lobpcg",
                    "weight": 100})
  return {
      "tasks": tasks,
      "rule": "every sorted spectrum multiset over %s with top 1 x bases "
              "{I,H,G(seed)} x scales {1e-6,1,1e6} x n x padding x p in 1..8 "
              "x ridge setting x method x dtype (+ Newton with iteration budgets "
              "below convergence); state = one (matrix, p, "
              "config) call; non-trivial = n >= 2" % values,
      "bounds": {"n": ns, "paddings": pads, "p": list(range(1, 9)),
                 "ridge": epss},
      "assumptions": [
          "honesty is judged only when the reported error < 0.1 and the "
          "regularised condition number <= 1e8 (float64)",
          "slack constant 64*n*p*kappa*u is empirical (design-time worst "
          "12.9)", "long double (80 bit) residual evaluation"],
  }


def residual_ld(x, a, d, ident):
  """max |X^p (A + d I_masked) - I_masked| in long double. x: X (n,n)."""
  raise NotImplementedError


def run_task(task):
  import jax
  import jax.numpy as jnp
  from precondition import distributed_shampoo as ds
  acc = Acc(task["name"])
  if task.get("kind") == "allpad":
    for n in (1, 2, 3, 5):
      for p in (1, 2, 4, 8):
        acc.states += 1
        acc.transitions += 1
        acc.nontrivial += 1
        a = jnp.asarray(np.eye(n) * 3.0 + 0.5)
        try:
          x, m = jax.jit(lambda a, p: ds.matrix_inverse_pth_root(
              a, p, padding_start=jnp.asarray(0, jnp.int32),
              eigh=task["method"] == "eigh"))(a, jnp.asarray(p, jnp.int32))
        except Exception as e:  # pylint: disable=broad-except
          acc.violation("C01|allpad|%s|n%d|p%d" % (task["method"], n, p),
                        "raised %s: %s" % (type(e).__name__, str(e)[:200]),
                        {"n": n, "p": p, "method": task["method"]})
          continue
        if np.any(np.asarray(x) != 0) or float(m.inverse_pth_root_errors) != 0:
          acc.violation("C01|allpad|%s|n%d|p%d|nz" % (task["method"], n, p),
                        "all-padding matrix did not give an exactly zero "
                        "root with zero error", {"n": n, "p": p})
        else:
          acc.outcome("allpad_ok")
    return acc.result()

  n, pad, eps, rel = task["n"], task["pad"], task["eps"], task["rel"]
  method, x64 = task["method"], task["x64"]
  nt = n + pad
  dt = np.float64 if x64 else np.float32
  u = U64 if x64 else 2.0**-23
  specs = spectra(n, task["values"])
  kinds = ["I"] if n == 1 else ["I", "H", "G"]
  scales = [1e-6, 1.0, 1e6]
  mats, meta = [], []
  for lam in specs:
    for kind in kinds:
      q = basis(n, kind, task["seed"])
      for sc in scales:
        a = (q * (np.asarray(lam) * sc)) @ q.T
        a = (a + a.T) / 2
        full = np.zeros((nt, nt))
        full[:n, :n] = a
        if pad == 2 or pad == 1:
          full[n:, n:] = np.eye(pad)          # what the optimizer pads with
        elif pad:
          full[n:, n:] = np.eye(pad) * 7.0    # garbage: must be masked out
          full[:n, n:] = 0.5 * sc
          full[n:, :n] = 0.5 * sc
        mats.append(full.astype(dt))
        meta.append((lam, kind, sc))
  mats = np.stack(mats)

  kw = dict(ridge_epsilon=eps, relative_matrix_epsilon=rel,
            eigh=(method == "eigh"))
  if method == "lobpcg":
    kw["lobpcg_topk_precondition"] = 1
  if task.get("num_iters"):
    kw["num_iters"] = task["num_iters"]

  def one(a, p, ps):
    return ds.matrix_inverse_pth_root(a, p, padding_start=ps, **kw)

  fn = jax.jit(jax.vmap(one, in_axes=(0, None, None)))
  if task.get("with_prev"):
    def one_prev(a, p, ps, prev):
      return ds.matrix_inverse_pth_root(a, p, padding_start=ps, prev=prev,
                                        **kw)
    fn_prev = jax.jit(jax.vmap(one_prev, in_axes=(0, None, None, 0)))
    vgen = np.cos(np.arange(1, nt + 1) * 1.7)
    vgen /= np.linalg.norm(vgen)

    def prevs(p):
      out = []
      for m in mats:
        a0 = m.astype(np.float64)
        lmx = np.linalg.eigvalsh(a0)[-1]
        a1 = a0 + 0.05 * lmx * np.outer(vgen, vgen) + eps * lmx * np.eye(nt)
        w, q = np.linalg.eigh(a1)
        out.append((q * w ** (-1.0 / p)) @ q.T)
      return jnp.asarray(np.stack(out).astype(dt))
    fn = lambda m_, p_, ps_: fn_prev(m_, p_, ps_, prevs(int(p_)))
  ps = jnp.asarray(n, jnp.int32)
  ident = np.zeros((nt, nt))
  ident[:n, :n] = np.eye(n)
  identl = ident.astype(np.longdouble)

  for p in range(1, 9):
    try:
      xs, ms = fn(jnp.asarray(mats), jnp.asarray(p, jnp.int32), ps)
      xs = np.asarray(xs)
      errs = np.asarray(ms.inverse_pth_root_errors, np.float64)
      mev = np.asarray(ms.max_eigen_value, np.float64)
      retries = np.asarray(ms.total_retries, np.float64)
    except Exception as e:  # pylint: disable=broad-except
      acc.states += len(meta)
      acc.transitions += len(meta)
      acc.outcome("viol_exception", len(meta))
      acc.violation("C01|%s|p%d|exc" % (task["name"], p),
                    "matrix_inverse_pth_root raised %s: %s" %
                    (type(e).__name__, str(e)[:300]),
                    {"n": n, "padding": pad, "p": p, "method": method,
                     "eps": eps, "relative": rel, "dtype": str(dt.__name__)})
      continue
    for i, (lam, kind, sc) in enumerate(meta):
      acc.states += 1
      acc.transitions += 1
      if n >= 2:
        acc.nontrivial += 1
      x = xs[i].astype(np.float64)
      lmax, lmin = sc * lam[0], sc * min(lam)
      case = {"n": n, "padding": pad, "spectrum": list(lam), "basis": kind,
              "scale": sc, "p": p, "eps": eps, "relative": rel,
              "method": method, "dtype": dt.__name__,
              "reported_error": float(errs[i]),
              "reported_max_ev": float(mev[i]),
              "retries": float(retries[i])}
      sig = "C01|%s|p%d|%s|%s|%g" % (task["name"], p, lam, kind, sc)
      # (i) structural
      if not np.all(np.isfinite(x)):
        acc.outcome("viol_nonfinite")
        acc.violation(sig + "|finite", "root is not finite", case)
        continue
      if pad and (np.any(x[n:, :] != 0) or np.any(x[:, n:] != 0)):
        acc.outcome("viol_padding")
        acc.violation(sig + "|pad", "root not exactly zero on padding rows/"
                      "columns", case)
        continue
      # (iii) estimate never above the true largest eigenvalue
      if rel and method != "eigh":
        if mev[i] > lmax * (1 + (1e-9 if x64 else 1e-5)) + 1e-300:
          acc.outcome("viol_max_ev")
          acc.violation(sig + "|maxev", "largest-eigenvalue estimate %.17g "
                        "exceeds the true largest eigenvalue %.17g" %
                        (mev[i], lmax), case)
          continue
      # admissible ridge interval
      if method == "eigh":
        if rel:
          dlo, dhi = eps * 1e-6, eps * max(lmax * (1 + 1e-9), 1e-6)
          dlo = min(dlo, dhi)
        else:
          dlo = dhi = eps
      elif method == "lobpcg":
        if rel:
          dlo = eps * max(mev[i] * (1 - 2.0**-23), 1e-25)
          dhi = eps * max(mev[i] * (1 + 2.0**-23), 1e-25)
        else:           # an absolute ridge is exactly epsilon
          dlo = dhi = eps
      else:
        f = 10.0 ** (max(retries[i], 1) - 1) if n > 1 else 1.0
        if rel:
          dlo = eps * max(mev[i] * (1 - 2.0**-23), 1e-25) * f
          dhi = eps * max(mev[i] * (1 + 2.0**-23), 1e-25) * f
        else:
          dlo = dhi = eps * f
      dmid = 0.5 * (dlo + dhi)
      kreg = (lmax + dmid) / (lmin + dmid)
      sigma = 64 * nt * p * kreg * u
      absx = np.max(np.abs(x))
      if kreg <= 1e8 and x64:
        asym = np.max(np.abs(x - x.T))
        if asym > sigma * absx:
          acc.outcome("viol_symmetry")
          acc.violation(sig + "|sym", "root not symmetric: |X-X^T|=%.3g > "
                        "%.3g" % (asym, sigma * absx), case)
          continue
      if not (errs[i] < THRESH):
        acc.outcome("rejected_by_threshold")
        continue
      if not (kreg <= 1e8 and x64):
        acc.outcome("accepted_structural_only")
        continue
      # (ii) honesty, 80-bit residual, minimum over the admissible ridge
      xl = x.astype(np.longdouble)
      xp = np.eye(nt, dtype=np.longdouble)
      for _ in range(p):
        xp = xp @ xl
      al = mats[i].astype(np.longdouble) * identl * identl.T
      al = np.zeros((nt, nt), np.longdouble)
      al[:n, :n] = mats[i][:n, :n].astype(np.longdouble)
      base = xp @ al - identl
      xpi = xp @ identl

      def resid(d):
        return float(np.max(np.abs(base + np.longdouble(d) * xpi)))

      bound = errs[i] * (1 + 2.0**-22) + sigma + 1e-300
      r = resid(dmid)
      if r > bound and dhi > dlo:
        lo, hi = dlo, dhi
        for _ in range(80):      # convex in d: ternary search
          m1, m2 = lo + (hi - lo) / 3, hi - (hi - lo) / 3
          if resid(m1) < resid(m2):
            hi = m2
          else:
            lo = m1
        r = min(r, resid(0.5 * (lo + hi)), resid(dlo), resid(dhi))
      if r > bound:
        acc.outcome("viol_honesty")
        acc.violation(sig + "|honest", "true residual max|X^p(A+dI)-I| = "
                      "%.6g exceeds reported error %.6g + slack %.3g "
                      "(kappa_reg %.3g)" % (r, errs[i], sigma, kreg), case)
      else:
        acc.outcome("honest_ok")
        acc.extra["worst_excess_over_nkpu"] = max(
            acc.extra.get("worst_excess_over_nkpu", 0.0),
            max(0.0, r - errs[i]) / (nt * p * kreg * u))
      acc.sample(dict(case, true_residual=r, kappa_reg=kreg))
  return acc.result()
