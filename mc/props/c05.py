"""C05 - grafting: warm-up uses the graft step, afterwards only its norm.

mcx: BFS over all gradient histories {gA,gB,gSeed,g0}^<=T for the product
graft type x preconditioner representation (full, low-rank +2/-2, frequent
directions, int16-quantized under pmap) x start step x skip rule
(distributed_shampoo) and graft type x {Shampoo, Sketchy} x start x skip
rules (tearfree).  Momentum, Nesterov and weight decay are off and lr = 1, so
the emitted update is minus the pre-momentum step.  Oracle: closed-form
float64 graft step; the direction is obtained by applying the *state's own*
preconditioners with an independent dense application, so the check does not
depend on root numerics.
"""
import itertools

import numpy as np

from mc.lib import Acc, tree_hash, maxabs, on_path

SHAPES = {"v": [5], "c": [6, 7], "s": [2, 2]}
EVENTS = ["gA", "gB", "gSeed", "g0"]

REPRS = {
    "full": ({}, "rep"),
    "comp+2": ({"compression_rank": 2}, "rep"),
    "comp-2": ({"compression_rank": -2}, "rep"),
    "fd": ({"compression_rank": 2, "frequent_directions": True,
            "reuse_preconditioner": True}, "rep"),
    "quant": ({"best_effort_memory_usage_reduction": True}, "pmap"),
    # every root rejected: the low-rank preconditioner keeps its all-zero
    # initial value, the preconditioned gradient is exactly zero
    "comp+2/thr0": ({"compression_rank": 2,
                     "inverse_failure_threshold": 0.0}, "rep"),
}
SKIPS = {
    "none": {},
    "rank_lt2": {"skip_preconditioning_rank_lt": 2},
    "dim_gt6": {"skip_preconditioning_dim_size_gt": 6},
    # with merging on: the exclusion rules look at the parameter's own shape
    "rank_lt2_merged": {"skip_preconditioning_rank_lt": 2,
                        "best_effort_shape_interpretation": True},
}


def plan(tier, seed):
  tasks = []
  depth = 3 if tier == "quick" else 4
  starts = [0, 2] if tier == "quick" else [0, 1, 2, 3]
  for gt in [1, 2, 3, 4, 5, 6]:
    for rname in REPRS:
      for start in starts:
        for sk in SKIPS:
          if tier == "quick" and sk != "none" and (rname not in
                                                   ("full", "fd") or
                                                   start == 0):
            continue
          tasks.append({"name": "ds/g%d/%s/start%d/%s" % (gt, rname, start,
                                                          sk),
                        "kind": "ds", "graft": gt, "repr": rname,
                        "start": start, "skip": sk, "depth": depth,
                        "seed": seed, "profile": {"x64": False},
                        "part": "ds_" + rname})
  # hyper-parameters of the grafting optimizer itself and of the norm
  # transplant: a large diagonal epsilon, second-moment decay 1 (RMSProp
  # becomes a sum), and tiny gradients after ordinary ones (the
  # preconditioned gradient's norm is then ~1e-12)
  for gt in [1, 2, 3, 4, 5, 6]:
    for var in ["de1e-3", "b2=1", "tiny", "coupled_lr", "sharded"]:
      for start in ([2] if tier == "quick" else [0, 2]):
        tasks.append({"name": "ds/g%d/full/start%d/none/%s" % (gt, start,
                                                               var),
                      "kind": "ds", "graft": gt, "repr": "full",
                      "start": start, "skip": "none", "depth": depth,
                      "variant": var, "seed": seed,
                      "profile": {"x64": False}, "part": "ds_variants"})
  for so in ["shampoo", "sketchy"]:
    for start in ([2] if tier == "quick" else [0, 2]):
      tasks.append({"name": "tf/rmsprop/%s/start%d/none/gd1" % (so, start),
                    "kind": "tf", "graft": "rmsprop", "so": so,
                    "start": start, "skip": "none", "depth": depth,
                    "graft_decay": 1.0, "seed": seed,
                    "profile": {"x64": False}, "part": "tf_" + so})
  for gt in ["sgd", "rmsprop", "adafactor"]:
    for so in ["shampoo", "sketchy"]:
      for start in starts:
        for sk in ["none", "rank1_off", "dim_gt6"]:
          if tier == "quick" and sk != "none" and start == 0:
            continue
          tasks.append({"name": "tf/%s/%s/start%d/%s" % (gt, so, start, sk),
                        "kind": "tf", "graft": gt, "so": so, "start": start,
                        "skip": sk, "depth": depth, "seed": seed,
                        "profile": {"x64": False}, "part": "tf_" + so})
  return {
      "tasks": tasks,
      "rule": "6 graft types x 5 preconditioner representations x start "
              "steps %s x skip rules (distributed_shampoo) and 3 graft types "
              "x 2 second-order methods x start x skip rules (tearfree), plus "
              "the grafting hyper-parameters (diagonal epsilon 1e-3, decay "
              "1, tiny gradients after ordinary ones) x all "
              "histories over %s up to depth %d; state = bit-exact optimizer "
              "state; non-trivial = transition at or after the start step "
              "with a non-zero gradient" % (starts, EVENTS, depth),
      "bounds": {"depth": depth, "starts": starts},
      "assumptions": ["beta1 = 0, no Nesterov, no weight decay, lr = 1: the "
                      "update is minus the pre-momentum step",
                      "optax.adafactor is the trusted base for ADAFACTOR"],
      "timeout": 3000,
  }


def graft_step(kind, g, acc, b2=0.5, de=1e-10):
  """DS closed forms; returns (step, new_acc)."""
  if kind in (2, 6):
    sg = g / (np.linalg.norm(g) + 1e-25) if kind == 6 else g
    acc = acc + sg * sg
    return sg / (np.sqrt(acc) + de), acc
  if kind in (3, 4):
    sg = g / (np.linalg.norm(g) + 1e-25) if kind == 4 else g
    acc = b2 * acc + ((1 - b2) if b2 != 1.0 else 1.0) * sg * sg
    return sg / (np.sqrt(acc) + de), acc
  if kind == 1:
    return g, acc
  return np.sign(g), acc


def run_ds(task, acc):
  import jax.numpy as jnp
  from mc import ds
  from mc.ref import shampoo as ref
  from precondition import distributed_shampoo as dsl
  rcfg, mode = REPRS[task["repr"]]
  cfg = dict(rcfg, graft_type=task["graft"], beta1=0.0, beta2=0.5,
             nesterov=False, learning_rate=1.0, block_size=8,
             start_preconditioning_step=task["start"],
             best_effort_shape_interpretation=False)
  cfg.update(SKIPS[task["skip"]])
  var = task.get("variant")
  b2, de, events = 0.5, 1e-10, EVENTS
  if var == "de1e-3":
    de = 1e-3
    cfg["diagonal_epsilon"] = de
  elif var == "b2=1":
    b2 = 1.0
    cfg["beta2"] = b2
  elif var == "tiny":
    events = ["gA", "tiny", "g0"]
  elif var == "coupled_lr":
    # the learning rate is part of the grafting optimizer's step
    cfg["decoupled_learning_rate"] = False
    cfg["learning_rate"] = 0.25
  elif var == "sharded":
    mode = "sharded"
  lr_in_graft = 0.25 if var == "coupled_lr" else 1.0
  runner = ds.Runner(cfg, SHAPES, mode)
  alpha = ds.grad_trees(SHAPES, events, (0, 8), task["seed"])
  full = dict(ref.BASE, **cfg)
  leaves = {n: ref.Leaf(full, SHAPES[n], runner.params_np[n])
            for n in SHAPES}
  crank = cfg.get("compression_rank", 0)
  sigbase = "C05|" + task["name"]
  case0 = {"optimizer": "distributed_shampoo", "graft_type": task["graft"],
           "representation": task["repr"], "start": task["start"],
           "skip": task["skip"]}

  def dense(pmat):
    pmat = np.asarray(pmat, np.float64)
    d, c = pmat.shape
    if d == c:
      return pmat
    V, inv, const, hz = [np.asarray(x, np.float64) for x in
                         dsl._low_rank_unpack(jnp.asarray(pmat), crank)]
    if bool(hz):
      return np.eye(d)
    return float(const) * (np.eye(d) - V @ V.T) + (V * inv) @ V.T

  s0 = runner.init()
  accs0 = {n: np.zeros(SHAPES[n]) for n in SHAPES}
  frontier = [(s0, accs0, ())]
  seen = {tree_hash(runner.host(s0))}
  acc.states += 1
  for _ in range(task["depth"]):
    nxt = []
    for s, accs, hist in frontier:
      t = len(hist)
      for ev in events:
        if not on_path(task, hist + (ev,)):
          continue
        u, s2 = runner.step(s, alpha[ev])
        u = runner.host(u)
        acc.transitions += 1
        h2 = hist + (ev,)
        accs2 = {}
        for n in SHAPES:
          g = alpha[ev][n].astype(np.float64)
          gstep, accs2[n] = graft_step(task["graft"], g, accs[n], b2, de)
          gstep = gstep * lr_in_graft
          got = -np.asarray(u[n], np.float64)
          lf = leaves[n]
          case = dict(case0, history=list(h2), leaf=n)
          sig = "%s|%s|%s" % (sigbase, ",".join(h2), n)
          gn = np.linalg.norm(gstep)
          if t < task["start"] or lf.skip:
            if maxabs(got - gstep) > 1e-6 * max(maxabs(gstep), 1e-30) + 1e-30:
              acc.outcome("viol_graft_step")
              acc.violation(sig + "|graftstep", "%s leaf %s: update is not "
                            "the grafting optimizer's step (rel %.3g)" %
                            ("excluded" if lf.skip else "warm-up", n,
                             maxabs(got - gstep) / max(maxabs(gstep), 1e-30)),
                            case)
            else:
              acc.outcome("graft_step_ok")
            continue
          if np.any(g != 0):
            acc.nontrivial += 1
          ls = runner.leaf_stats(s if mode == "sharded" else s2, n)
          if len(ls["preconditioners"]) != len(lf.stats):
            acc.outcome("viol_exclusion_rule")
            acc.violation(sig + "|excluded", "leaf %s of shape %s holds %d "
                          "preconditioners, the documented exclusion rules "
                          "(on the parameter's own shape) give %d" %
                          (n, SHAPES[n], len(ls["preconditioners"]),
                           len(lf.stats)), case)
            continue
          precs = [dense(p) for p in ls["preconditioners"]]
          pg = lf.precondition(g, precs)
          pn = np.linalg.norm(pg)
          un = np.linalg.norm(got)
          if pn == 0:
            if un > 1e-30:
              acc.outcome("viol_zero_direction")
              acc.violation(sig + "|zero", "preconditioned gradient is zero "
                            "but the update is not", case)
            else:
              acc.outcome("zero_ok")
            continue
          if abs(un - gn) > 1e-5 * gn + 1e-30:
            acc.outcome("viol_norm")
            acc.violation(sig + "|norm", "update norm %.9g != grafting step "
                          "norm %.9g" % (un, gn), case)
            continue
          cos = float(np.vdot(got, pg)) / (un * pn) if un > 0 else 1.0
          # rounding-error bound of the float32 application of these
          # preconditioners: angle <= 8 u * prod ||P_i|| ||g|| / ||P g||
          kap = np.prod([np.linalg.norm(p, 2) for p in precs]) * \
              np.linalg.norm(g) / pn
          ang = max(1.5e-3, 64 * 2.0**-24 * kap)
          if ang > 0.3:
            acc.inconclusive_dir = getattr(acc, "inconclusive_dir", 0) + 1
            acc.outcome("norm_ok_direction_ill_conditioned")
            continue
          if gn > 0 and cos < np.cos(ang):
            acc.outcome("viol_direction")
            acc.violation(sig + "|dir", "update is not parallel to the "
                          "preconditioned gradient (cos %.9f, allowed angle "
                          "%.3g)" % (cos, ang), case)
            continue
          acc.outcome("norm_and_direction_ok")
        key = tree_hash(runner.host(s2))
        if key in seen:
          acc.outcome("merged_states")
          continue
        seen.add(key)
        acc.states += 1
        nxt.append((s2, accs2, h2))
        acc.sample(dict(case0, history=list(h2)))
    frontier = nxt


def run_tf(task, acc):
  import jax
  import jax.numpy as jnp
  import optax
  from mc import grads as G
  from mc.props import c07
  from precondition.tearfree import grafting, second_order
  shapes = {"v": [5], "c": [6, 7], "m": [4, 2]}
  skip = {"none": {}, "rank1_off": {"skip_preconditioning_rank1": False},
          "dim_gt6": {"skip_preconditioning_any_dim_gt": 6}}[task["skip"]]
  gd = task.get("graft_decay", 0.5)
  cfg = dict(grafting_type=task["graft"], graft_decay=gd,
             second_order_type=task["so"], block_size=3, merge_dims=2,
             second_moment_decay=0.5, sketchy_rank=2,
             start_preconditioning_step=task["start"], momentum_decay=0.0,
             learning_rate=1.0, min_dim_size_to_factor=2, **skip)
  params_np = {k: G.dyadic(tuple(s), "P" + k) for k, s in shapes.items()}
  # process history: optimizers that differ from this one in a single
  # grafting hyper-parameter were built and stepped earlier in this process
  for nb in ({"min_dim_size_to_factor": 128}, {"graft_decay": 0.25}):
    if task["graft"] == "sgd" and "graft_decay" in nb:
      continue
    try:
      o2 = c07.build_tearfree(dict(cfg, **nb))
      p2 = {k: jnp.asarray(v) for k, v in params_np.items()}
      o2.update(p2, o2.init(p2), p2)
    except Exception:  # pylint: disable=broad-except
      pass
  opt = c07.build_tearfree(cfg)
  params = {k: jnp.asarray(v) for k, v in params_np.items()}
  # row-sparse events: after gRow0 the direction of gRow1s lies entirely in
  # eigen-directions that Shampoo drops (2^-28 of the block maximum), so its
  # preconditioned gradient is exactly zero while the graft step is not
  tf_events = EVENTS + ["gRow0", "gRow1s"]
  alpha = G.tree_alphabet({k: tuple(v) for k, v in shapes.items()},
                          tf_events, (0, 3), task["seed"])
  upd = jax.jit(opt.update)
  # the real direction transform, applied to the state's own direction state
  gopts = grafting.Options(
      skip_preconditioning_rank1=cfg.get("skip_preconditioning_rank1", True),
      skip_preconditioning_any_dim_gt=cfg.get(
          "skip_preconditioning_any_dim_gt", 4096))
  so_tx = None
  # rebuild the same second-order options c07 used
  from precondition.tearfree import shampoo, sketchy
  if task["so"] == "shampoo":
    so_opts = second_order.Options(
        merge_dims=2, second_order_type=second_order.SecondOrderType.SHAMPOO,
        shampoo_options=shampoo.Options(block_size=3,
                                        second_moment_decay=0.5))
  else:
    so_opts = second_order.Options(
        merge_dims=2, second_order_type=second_order.SecondOrderType.SKETCHY,
        shampoo_options=None,
        sketchy_options=sketchy.Options(rank=2, second_moment_decay=0.5))
  so_tx = second_order.apply(so_opts)
  mask = lambda tree: grafting._mask_skipped(gopts, tree)
  so_upd = jax.jit(lambda g, st, p: so_tx.update(mask(g), st, mask(p)))
  ada = None
  if task["graft"] == "adafactor":
    atx = optax.adafactor(min_dim_size_to_factor=2, decay_rate=0.5,
                          multiply_by_parameter_scale=True, eps=1e-23,
                          clipping_threshold=1.0)
    ada = (jax.jit(atx.update), atx.init(params))
  sigbase = "C05|" + task["name"]
  case0 = {"optimizer": "tearfree", "graft_type": task["graft"],
           "second_order": task["so"], "start": task["start"],
           "skip": task["skip"]}
  s0 = opt.init(params)
  frontier = [(s0, {n: np.zeros(shapes[n]) for n in shapes},
               ada[1] if ada else None, ())]
  seen = {tree_hash(s0)}
  acc.states += 1
  for _ in range(task["depth"]):
    nxt = []
    for s, accs, ast, hist in frontier:
      t = len(hist)
      for ev in tf_events:
        if not on_path(task, hist + (ev,)):
          continue
        g = {k: jnp.asarray(v) for k, v in alpha[ev].items()}
        u, s2 = upd(g, s, params)
        base, _ = so_upd(g, s[0].direction, params)
        acc.transitions += 1
        h2 = hist + (ev,)
        au, ast2 = (None, None)
        if ada:
          au, ast2 = ada[0](g, ast, params)
        accs2 = {}
        for n in shapes:
          gg = alpha[ev][n].astype(np.float64)
          if task["graft"] == "sgd":
            gstep, accs2[n] = gg, accs[n]
          elif task["graft"] == "rmsprop":
            accs2[n] = (accs[n] + gg * gg) if gd == 1.0 else \
                ((1 - gd) * gg * gg + gd * accs[n])
            gstep = gg / np.sqrt(accs2[n] + 1e-23)
          else:
            gstep, accs2[n] = -np.asarray(au[n], np.float64), accs[n]
          got = -np.asarray(u[n], np.float64)
          b = base[n]
          masked = grafting._masked(b)
          case = dict(case0, history=list(h2), leaf=n)
          sig = "%s|%s|%s" % (sigbase, ",".join(h2), n)
          gn = np.linalg.norm(gstep)
          if masked or t < task["start"]:
            if maxabs(got - gstep) > 2e-6 * max(maxabs(gstep), 1e-30) + 1e-30:
              acc.outcome("viol_graft_step")
              acc.violation(sig + "|graftstep", "%s leaf %s: update is not "
                            "the grafting optimizer's step (rel %.3g)" %
                            ("excluded" if masked else "warm-up", n,
                             maxabs(got - gstep) / max(maxabs(gstep), 1e-30)),
                            case)
            else:
              acc.outcome("graft_step_ok")
            continue
          if np.any(gg != 0):
            acc.nontrivial += 1
          pg = np.asarray(b, np.float64)
          pn, un = np.linalg.norm(pg), np.linalg.norm(got)
          if pn == 0:
            if un > 1e-30:
              acc.outcome("viol_zero_direction")
              acc.violation(sig + "|zero", "preconditioned gradient is zero "
                            "but the update is not", case)
            else:
              acc.outcome("zero_ok")
            continue
          if abs(un - gn) > 1e-5 * gn + 1e-30:
            acc.outcome("viol_norm")
            acc.violation(sig + "|norm", "update norm %.9g != grafting step "
                          "norm %.9g" % (un, gn), case)
            continue
          cos = float(np.vdot(got, pg)) / (un * pn) if un > 0 else 1.0
          if gn > 0 and cos < 1 - 1e-6:
            acc.outcome("viol_direction")
            acc.violation(sig + "|dir", "update is not parallel to the "
                          "preconditioned gradient (cos %.9f)" % cos, case)
            continue
          acc.outcome("norm_and_direction_ok")
        key = tree_hash(s2)
        if key in seen:
          acc.outcome("merged_states")
          continue
        seen.add(key)
        acc.states += 1
        nxt.append((s2, accs2, ast2, h2))
        acc.sample(dict(case0, history=list(h2)))
    frontier = nxt


def run_task(task):
  acc = Acc(task["name"])
  try:
    if task["kind"] == "ds":
      run_ds(task, acc)
    else:
      run_tf(task, acc)
  except Exception as e:  # pylint: disable=broad-except
    import traceback
    acc.violation("C05|%s|exception" % task["name"], "%s: %s" %
                  (type(e).__name__, str(e)[:300]),
                  {"trace": traceback.format_exc()[-1500:]})
  return acc.result()
