"""C16 - OCO algorithms match closed forms; lossless S-AdaGrad = full AdaGrad.

mcx: BFS over all gradient sequences from a 5-letter alphabet (two
independent directions, their sum, a third independent direction, zero) up to
depth T through the real init/update pair of precondition.oco.algorithms
(x64), lock-step with float64 closed forms / an independent NumPy
frequent-directions sketch.
"""
import numpy as np

from mc.lib import Acc, bfs, arr_hash


def events(n):
  a = np.zeros(n)
  a[0], a[1] = 1.0, 0.5
  b = np.asarray([(-1.0) ** i * (0.25 + 0.5 * ((3 * i + 1) % 4)) for i in
                  range(n)])
  c = a + b
  d = np.asarray([0.75 - 0.5 * ((5 * i + 2) % 3) for i in range(n)])
  d[-1] += 1.0
  return {"a": a, "b": b, "c": c, "d": d, "z": np.zeros(n)}


def plan(tier, seed):
  del seed
  tasks = []
  depth = 4 if tier == "quick" else 5
  dims = [2, 3, 4] if tier == "quick" else [2, 3, 4, 5]
  for n in dims:
    for delta in [0.0, 0.5]:
      for lr in [1.0, 0.25]:
        for alg in ["OGD", "ADA"]:
          tasks.append({"name": "%s/n%d/d%s/lr%s" % (alg, n, delta, lr),
                        "alg": alg, "n": n, "delta": delta, "lr": lr,
                        "sketch": 0, "depth": depth + 1,
                        "profile": {"x64": True}, "part": "closed_form"})
        for alg in ["S_ADA", "ADA_FD", "FD_SON", "RFD_SON"]:
          for sk in [2, 3]:
            if sk > n:
              continue
            tasks.append({"name": "%s/n%d/l%d/d%s/lr%s" % (alg, n, sk, delta,
                                                         lr),
                          "alg": alg, "n": n, "delta": delta, "lr": lr,
                          "sketch": sk, "depth": depth,
                          "profile": {"x64": True}, "part": "sketched"})
  # tiny scale: gradients times 2^-24 with delta = 2^-44 (the equivalence
  # with full-matrix AdaGrad is scale free)
  for n, sk in [(3, 3), (4, 3)]:
    tasks.append({"name": "S_ADA/tiny/n%d/l%d" % (n, sk), "alg": "S_ADA",
                  "n": n, "delta": 2.0**-44, "lr": 1.0, "sketch": sk,
                  "gscale": 2.0**-24, "depth": depth,
                  "profile": {"x64": True}, "part": "sketched"})
  # the closed forms and the sketched invariants are scale free as well:
  # every algorithm on gradients times 2^-12 / 2^-24 with delta 0 and 2^-44
  for alg, sk in [("OGD", 0), ("ADA", 0), ("ADA_FD", 2), ("FD_SON", 2),
                  ("RFD_SON", 2), ("S_ADA", 2)]:
    for gsc in [2.0**-12, 2.0**-24]:
      for delta in [0.0, 2.0**-44]:
        if alg == "S_ADA" and gsc == 2.0**-24 and delta:
          continue
        tasks.append({"name": "%s/tiny%g/n3/l%d/d%g" % (alg, gsc, sk, delta),
                      "alg": alg, "n": 3, "delta": delta, "lr": 1.0,
                      "sketch": sk, "gscale": gsc, "depth": depth,
                      "profile": {"x64": True},
                      "part": "sketched" if sk else "closed_form"})
  for alg, sk in [("OGD", 0), ("ADA", 0), ("S_ADA", 3), ("S_ADA", 2)]:
    for n in [3, 4]:
      tasks.append({"name": "train/%s/n%d/l%d" % (alg, n, sk), "kind": "train",
                    "alg": alg, "n": n, "delta": 0.5, "lr": 0.25,
                    "sketch": sk, "depth": 3 if tier == "quick" else 4,
                    "profile": {"x64": True}, "part": "train_loop"})
  tasks.append({"name": "S_ADA/2x2/l2", "alg": "S_ADA", "n": 4, "delta": 0.5,
                "lr": 1.0, "sketch": 2, "depth": depth, "wshape": [2, 2],
                "profile": {"x64": True}, "part": "sketched"})
  return {
      "tasks": tasks,
      "rule": "all gradient sequences over {a,b,a+b,d,0} up to depth T per "
              "(algorithm, dimension, sketch size, delta, lr); states merged "
              "on bit-identical (implementation state, reference state); "
              "non-trivial = transition with non-zero gradient",
      "bounds": {"depth": depth, "dims": dims},
      "assumptions": ["jax_enable_x64 (the package creates float64 state)"],
  }


def run_train(task, acc):
  """The dataset driver of oco/train.py: all row sequences of length T, all
  ways of cutting them into observation chunks; recorded iterates against the
  closed forms of the prefixes (linear loss <w,x>, so gradient t = row t)."""
  import itertools
  import jax
  import jax.numpy as jnp
  from precondition.oco import algorithms as A
  from precondition.oco import train
  n, delta, lr, sk = task["n"], task["delta"], task["lr"], task["sketch"]
  T = task["depth"]
  alg = getattr(A.Algorithm, task["alg"])
  hp = A.HParams(delta=delta, lr=lr, sketch_size=sk, algorithm=alg)
  init, update = A.generate_init_update((n,), hp)
  ev = events(n)
  names = ["a", "b", "c", "z"] + (["d"] if n >= 3 and sk != 2 else [])
  loss = lambda w, x, y: jnp.dot(w, x)
  lag = jax.value_and_grad(loss)
  cuts = [c for r in range(0, T) for c in itertools.combinations(
      range(1, T), r)]
  for seq in itertools.product(names, repeat=T):
    x = np.stack([ev[e] for e in seq])
    # reference iterates after each step
    w = np.zeros(n)
    h = np.full(n, float(delta))
    C = np.zeros((n, n))
    ref = [w.copy()]
    for t, e in enumerate(seq, 1):
      g = ev[e]
      if task["alg"] == "OGD":
        w = w - lr * g / np.sqrt(t + delta)
      elif task["alg"] == "ADA":
        h = h + g * g
        w = w - lr * g / np.sqrt(np.where(h == 0, 1.0, h))
      else:
        C = C + np.outer(g, g)
        lam, v = np.linalg.eigh(delta * np.eye(n) + C)
        w = w - lr * (v * lam ** -0.5) @ v.T @ g
      ref.append(w.copy())
    rank = np.linalg.matrix_rank(x)
    if task["alg"] == "S_ADA" and not rank < sk:
      acc.outcome("lossy_sequence_skipped")
      continue
    for cut in cuts:
      obs = np.asarray([0] + list(cut) + [T])
      st = dict(init())
      st["loss"] = jnp.array(0.0, jnp.float64)
      st["n"] = 0
      hist = train._compiled_run_dataset(
          jnp.asarray(x), jnp.zeros(T), st, jnp.asarray(obs), lag, update,
          None)
      acc.states += 1
      acc.transitions += 1
      if len(cut):
        acc.nontrivial += 1
      ws = np.asarray(hist["w"], np.float64)
      ns = np.asarray(hist["n"])
      for i, o in enumerate(obs):
        want = ref[o]
        if int(ns[i]) != o or np.max(np.abs(ws[i] - want)) > 1e-9 * max(
            1.0, np.max(np.abs(want))):
          acc.outcome("viol_train_loop")
          acc.violation(
              "C16|%s|%s|%s" % (task["name"], ",".join(seq), list(obs)),
              "iterate recorded after %d rows (observation points %s) is %s, "
              "closed form %s" % (o, obs.tolist(), ws[i].tolist(),
                                  want.tolist()),
              {"config": {k: task[k] for k in ("alg", "n", "delta", "lr",
                                               "sketch")},
               "rows": list(seq), "obs_ixs": obs.tolist()})
          break
      else:
        acc.outcome("train_loop_ok")
    acc.sample({"rows": list(seq), "chunkings": len(cuts)})


def run_task(task):
  import jax
  import jax.numpy as jnp
  from precondition.oco import algorithms as A
  acc = Acc(task["name"])
  if task.get("kind") == "train":
    run_train(task, acc)
    return acc.result()
  n, delta, lr, sk = task["n"], task["delta"], task["lr"], task["sketch"]
  alg = getattr(A.Algorithm, task["alg"])
  hp = A.HParams(delta=delta, lr=lr, sketch_size=sk, algorithm=alg)
  wshape = tuple(task.get("wshape", [n]))
  # process history: the same algorithm bound earlier in this process with
  # other hyper-parameters must not leak into this binding
  try:
    oi, ou = A.generate_init_update(
        wshape, A.HParams(delta=delta + 0.25, lr=lr * 2, sketch_size=sk,
                          algorithm=alg))
    ou(dict(oi()), jnp.zeros(()), jnp.ones(wshape))
  except Exception:  # pylint: disable=broad-except
    pass
  init, update = A.generate_init_update(wshape, hp)
  gs = task.get("gscale", 1.0)
  ev = {k: v * gs for k, v in events(n).items()}
  names = list(ev) if n >= 3 else ["a", "b", "c", "z"]

  @jax.jit
  def jstep(st, g):
    st = dict(st)
    return update(st, jnp.zeros(()), g)

  def step(s, e):
    s2 = jstep(dict(s), jnp.asarray(ev[e].reshape(wshape)))
    return None, {k: np.asarray(v) for k, v in s2.items()}

  # a bound (init, update) pair is reused for several runs (a sweep): one
  # eager run on the state handed out by init() first, then init() again -
  # the exploration below starts from that second state
  try:
    warm = init()
    for e in names[:2]:
      warm = update(warm, jnp.zeros(()), jnp.asarray(ev[e].reshape(wshape)))
  except Exception as e:  # pylint: disable=broad-except
    acc.violation("C16|%s|eager" % task["name"], "eager stepping raised "
                  "%s: %s" % (type(e).__name__, str(e)[:200]),
                  {"config": {k: task[k] for k in ("alg", "n", "delta", "lr",
                                                   "sketch")}})
    return acc.result()
  s0 = {k: np.asarray(v) for k, v in init().items()}
  tol = 1e-10

  # reference state: dict with t, w closed form, exact C, own FD sketch
  r0 = {"t": 0, "w": np.zeros(n), "h": np.full(n, float(delta)),
        "C": np.zeros((n, n)), "Craw": np.zeros((n, n)),
        "B": np.zeros((max(sk, 1), n)), "rho2": 0.0, "wfm": np.zeros(n),
        "G": np.zeros((0, n))}

  def factor(t):
    if task["alg"] == "RFD_SON":
      return 1.0 / np.sqrt(t * lr)
    if task["alg"] == "FD_SON":
      return 1.0 / np.sqrt(np.sqrt(t) * lr)
    return 1.0

  def ref_step(r, e):
    g = ev[e]
    r2 = dict(r)
    t = r["t"] + 1
    r2["t"] = t
    if task["alg"] == "OGD":
      r2["w"] = r["w"] - lr * g / np.sqrt(t + delta)
    elif task["alg"] == "ADA":
      h = r["h"] + g * g
      r2["h"] = h
      r2["w"] = r["w"] - lr * g / np.sqrt(np.where(h == 0, 1.0, h))
    else:
      f = factor(t)
      gs = g * f
      r2["C"] = r["C"] + np.outer(gs, gs)
      r2["Craw"] = r["Craw"] + np.outer(g, g)
      B = r["B"].copy()
      B[-1] = gs
      _, s, vt = np.linalg.svd(B, full_matrices=False)
      rho = s[-1]
      s2 = np.sqrt(np.maximum((s - rho) * (s + rho), 0))
      r2["B"] = vt * s2[:, None]
      r2["rho2"] = r["rho2"] + rho * rho
      r2["G"] = np.concatenate([r["G"], g[None]], 0)
      # exact full-matrix AdaGrad iterate
      if delta > 0:
        w_, v_ = np.linalg.eigh(delta * np.eye(n) + r2["Craw"])
        r2["wfm"] = r["wfm"] - lr * (v_ * w_ ** -0.5) @ v_.T @ g
    return None, r2

  def canon(s, r):
    return arr_hash(*[s[k] for k in sorted(s)],
                    *[np.asarray(r[k]) for k in sorted(r)])

  def check(hist, s, e, out, s2, r, rout, r2):
    case = {"config": {k: task[k] for k in
                       ("alg", "n", "delta", "lr", "sketch")},
            "history": list(hist)}
    sig = "C16|%s|%s" % (task["name"], ",".join(hist))
    if np.any(ev[e] != 0):
      acc.nontrivial += 1
    w = np.asarray(s2["w"], np.float64).ravel()
    if not np.all(np.isfinite(w)):
      # not part of the property for the sketched methods (Ada-FD with
      # delta = 0 divides by its zero diagonal term); counted, not judged
      acc.outcome("iterate_nonfinite_%s_delta%s" % (task["alg"], delta))
    if task["alg"] in ("OGD", "ADA"):
      scale = max(1.0, np.max(np.abs(r2["w"])))
      if not np.max(np.abs(w - r2["w"])) <= tol * scale:
        acc.outcome("viol_closed_form")
        acc.violation(sig + "|closed", "iterate %s differs from closed form "
                      "%s" % (w.tolist(), r2["w"].tolist()), case)
      else:
        acc.outcome("closed_form_ok")
      acc.sample(dict(case, w=w.tolist()))
      return
    P, evals, alpha = s2["P"], s2["e"], float(s2["alpha"])
    B = P * evals[:, None]
    if np.max(np.abs(B[-1])) > 0 or evals[-1] != 0:
      acc.outcome("viol_last_row")
      acc.violation(sig + "|lastrow", "last sketch row not zero: e[-1]=%r" %
                    float(evals[-1]), case)
    C = r2["C"]
    nC = max(np.linalg.norm(C, 2), 1e-300)
    S = B.T @ B
    lo = np.linalg.eigvalsh(C - S).min()
    # escaped mass: independent reference sketch's cumulative rho^2
    hi = np.linalg.eigvalsh(S + r2["rho2"] * np.eye(n) - C).min()
    if lo < -1e-9 * nC or hi < -1e-9 * nC:
      acc.outcome("viol_bracket")
      acc.violation(sig + "|bracket", "sketch leaves the FD bracket: "
                    "lmin(C-S)=%.3g lmin(S+tI-C)=%.3g ||C||=%.3g" %
                    (lo, hi, nC), case)
    else:
      acc.outcome("bracket_ok")
    if task["alg"] == "S_ADA" and np.all(np.isfinite(w)):
      # the diagonal term *applied* in this step is delta + escaped mass
      # including this step's: dw = lr [P' (alpha+s)^-1/2 P g + alpha^-1/2
      # (g - P'P g)] with the state after the update
      g_ = ev[e]
      s_ = evals ** 2
      inv_s = np.where(alpha + s_ > 0, (alpha + s_) ** -0.5, 0.0)
      inv_a = alpha ** -0.5 if alpha > 0 else 0.0
      pg = P @ g_
      step_want = P.T @ (inv_s * pg) + inv_a * (g_ - P.T @ pg)
      dw = (np.asarray(s["w"], np.float64).ravel() - w) / lr
      sc_ = max(np.max(np.abs(step_want)), 1e-300)
      lam_ = alpha + s_
      if (0 < alpha < 1e-10 * max(float(np.max(lam_)), 1e-300)) or \
          np.any((lam_ > 0) & (lam_ < 1e-20 * max(float(np.max(lam_)),
                                                   1e-300))) or \
          np.max(np.abs(s["w"])) * 2.0**-52 > 1e-9 * sc_:
        # (a numerically - not exactly - zero eigenvalue of the sketch passes
        # the > 0 guard and amplifies rounding noise by its inverse root;
        # seen after a zero gradient with delta = 0 in dimension 5)
        # (or an earlier noise-amplified step left an iterate so large that
        # this step cannot be resolved in the difference of iterates)
        # delta = 0 and a numerically (not exactly) zero escaped mass: the
        # complement g - P'Pg is rounding noise multiplied by alpha^-1/2
        acc.outcome("applied_diagonal_ill_conditioned")
      elif np.max(np.abs(dw - step_want)) > 1e-8 * sc_:
        acc.outcome("viol_applied_diagonal")
        acc.violation(sig + "|applied", "the S-AdaGrad step is not built "
                      "with the diagonal term delta + escaped mass of this "
                      "step (rel dev %.3g)" %
                      (np.max(np.abs(dw - step_want)) / sc_), case)
      else:
        acc.outcome("applied_diagonal_ok")
    if task["alg"] == "S_ADA":
      want = delta + r2["rho2"]
      if abs(alpha - want) > 1e-9 * max(1.0, want):
        acc.outcome("viol_alpha")
        acc.violation(sig + "|alpha", "S-AdaGrad alpha %.12g != delta + "
                      "escaped mass %.12g" % (alpha, want), case)
      else:
        acc.outcome("alpha_ok")
      rank = np.linalg.matrix_rank(r2["G"]) if len(r2["G"]) else 0
      if rank < sk and delta > 0:
        scale = max(1.0, np.max(np.abs(r2["wfm"])))
        if not np.max(np.abs(w - r2["wfm"])) <= 1e-9 * scale:
          acc.outcome("viol_fullmatrix")
          acc.violation(sig + "|fm", "lossless S-AdaGrad iterate %s != "
                        "full-matrix AdaGrad %s" %
                        (w.tolist(), r2["wfm"].tolist()), case)
        else:
          acc.outcome("fullmatrix_ok")
      else:
        acc.outcome("lossy_or_delta0")
    elif task["alg"] in ("ADA_FD", "FD_SON"):
      if alpha != delta:
        acc.outcome("viol_alpha")
        acc.violation(sig + "|alpha", "alpha changed for %s" % task["alg"],
                      case)
    acc.sample(dict(case, alpha=alpha, e=evals.tolist()))

  bfs(acc, s0, r0, names, task["depth"], step, ref_step, check, canon,
      task=task)
  return acc.result()
