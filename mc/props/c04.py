"""C04 - statistics/preconditioner refresh and warm-up follow the schedule.

Engine B: TLC explores mc/tla/RefreshProtocol.tla over the whole grid of
(statistics interval, preconditioner interval, start step, mode, schedule);
every path of the dumped state graph is replayed on the real Distributed
Shampoo (replicated, pmap+int16-quantized, sharded) and on Tearfree Shampoo /
Sketchy, and the abstraction of every real transition (which leaves changed
bitwise, counters, which formula produced the update) must equal the model's
successor.  The Python automaton explored by the same BFS must report TLC's
state and edge counts.
"""
import json

from mc.lib import Acc

SHAPES_DS = {"v": [3], "m": [2, 3]}
SHAPES_TF = {"m": [4, 2], "v": [3]}

SCHED_SPECS = {
    "1": {"decay_preconditioning_compute_steps": True,
          "end_preconditioning_compute_steps": 31,
          "learning_rate": {"sched": "lin", "a": 0.25, "T": 8, "m": 0.125}},
    "2": {"decay_preconditioning_compute_steps": True,
          "end_preconditioning_compute_steps": 25,
          "learning_rate": {"sched": "half", "a": 0.25, "k": 3}},
}


def tabs_for(T):
  from mc.ref import shampoo as ref
  tabs = {}
  for sid, spec in SCHED_SPECS.items():
    cfg = dict(ref.BASE, preconditioning_compute_steps=1, **spec)
    row = []
    for t in range(T + 1):
      f = ref.lr_fn(cfg["learning_rate"])
      v = 1 + (1 - f(t) / f(0)) * cfg["end_preconditioning_compute_steps"]
      # the implementation evaluates this in float32: keep clear of the
      # multiples of 10 where the floor could flip
      assert abs(v / 10 - round(v / 10)) > 1e-3 or v < 5, (sid, t, v)
      row.append(int(ref.scheduled_interval(cfg, t)))
    tabs[int(sid)] = row
  return tabs


def plan(tier, seed):
  del seed
  from mc import tlc
  if tier == "quick":
    T = 8
    grids = [
        dict(T=T, SS=[1, 2, 3], PP=[1, 2, 3], STARTS=[0, 1, 2, 4],
             MODES=["rep", "quant", "sharded"], SCHEDS=[0], EVENTS=["ok"],
             MAXF=0),
        dict(T=24, SS=[1, 2], PP=[1], STARTS=[1],
             MODES=["rep", "quant", "sharded"], SCHEDS=[1, 2], EVENTS=["ok"],
             MAXF=0),
        dict(T=T, SS=[1, 2, 3], PP=[1, 2, 3], STARTS=[0, 1, 3],
             MODES=["tf_shampoo", "tf_sketchy"], SCHEDS=[0], EVENTS=["ok"],
             MAXF=0),
    ]
  else:
    T = 8
    grids = [
        dict(T=T, SS=[1, 2, 3, 4], PP=[1, 2, 3, 4], STARTS=[0, 1, 2, 4],
             MODES=["rep", "quant", "sharded"], SCHEDS=[0],
             EVENTS=["ok", "zero"], MAXF=0),
        dict(T=40, SS=[1, 2, 3], PP=[1], STARTS=[1, 3],
             MODES=["rep", "quant", "sharded"], SCHEDS=[1, 2], EVENTS=["ok"],
             MAXF=0),
        dict(T=T, SS=[1, 2, 3, 4], PP=[1, 2, 3, 4], STARTS=[0, 1, 3, 5],
             MODES=["tf_shampoo", "tf_sketchy"], SCHEDS=[0],
             EVENTS=["ok", "zero"], MAXF=0),
    ]
  tasks = []
  model = {"tlc_distinct_states": 0, "tlc_edges": 0, "paths": 0,
           "python_automaton_states": 0, "python_automaton_edges": 0,
           "grids": []}
  for gi, g in enumerate(grids):
    tabs = tabs_for(g["T"]) if any(g["SCHEDS"]) else {}
    graph, st = tlc.run(tabs=tabs, **g)
    pst, ped = tlc.python_automaton_count(tabs=tabs, **g)
    if (pst, ped) != (st["distinct"], st["edges"]):
      raise RuntimeError("explorer cross-check failed: TLC %s vs python "
                         "automaton %s" % (st, (pst, ped)))
    model["tlc_distinct_states"] += st["distinct"]
    model["tlc_edges"] += st["edges"]
    model["python_automaton_states"] += pst
    model["python_automaton_edges"] += ped
    model["grids"].append({k: g[k] for k in g})
    for init in graph["inits"]:
      sub = tlc.subgraph(graph, init)
      n0 = sub["nodes"][init]
      npaths = tlc.count_paths(sub)
      model["paths"] += npaths
      tf = n0["mode"].startswith("tf_")
      tasks.append({
          "name": "g%d/%s/S%d/P%d/start%d/sched%d" %
                  (gi, n0["mode"], n0["S"], n0["P"], n0["start"],
                   n0["sched"]),
          "sub": sub, "tf": tf, "part": n0["mode"],
          "profile": dict({"x64": not tf},
                          **({"devices": 2} if n0["mode"] == "quant" else {})),
          "weight": npaths * g["T"]})
      if n0["mode"] == "tf_sketchy" and n0["start"] == 0:
        # EKFAC variant: the update routine is also called on off-schedule
        # steps (to refresh the EKFAC scalings); the sketch must still move
        # only on multiples of the update frequency
        tasks.append({
            "name": "g%d/tf_sketchy_ekfac/S%d/P%d/start%d" %
                    (gi, n0["S"], n0["P"], n0["start"]),
            "sub": sub, "tf": True, "extra": {"ekfac_svd": True, "rank": 1},
            "part": "tf_sketchy_ekfac", "profile": {"x64": False},
            "weight": npaths * g["T"]})
  return {
      "tasks": tasks,
      "model": model,
      "rule": "TLC enumerates RefreshProtocol for every (S, P, start, mode, "
              "schedule) of the grid; every path of the dumped graph is "
              "replayed on the implementation; state = model state (versions) "
              "x implementation state; non-trivial = transition on which "
              "statistics or preconditioner versions change",
      "bounds": {"horizon": [g["T"] for g in grids],
                 "grids": len(grids)},
      "assumptions": [
          "ok events alternate two full-rank dyadic gradients so that every "
          "statistics step changes the stored bytes",
          "scheduled intervals are tabulated in float64 and kept clear of "
          "the rounding boundaries of the documented formula"],
      "timeout": 3000,
  }


def run_task(task):
  from mc import replay
  acc = Acc(task["name"])
  sub = task["sub"]
  n0 = sub["nodes"][sub["init"]]
  case = {"S": n0["S"], "P": n0["P"], "start": n0["start"],
          "mode": n0["mode"], "sched": n0["sched"]}
  sig = "C04|" + task["name"]
  try:
    if task["tf"]:
      rp = replay.TFReplayer(n0, SHAPES_TF, task.get("extra", {}))
    else:
      # coupled weight decay is on in the fixed-interval grids: it enters
      # the warm-up update and the preconditioned one at different places
      extra = {"block_size": 4, "_quant_devices": 2}
      if not n0["sched"]:
        extra["weight_decay"] = 0.25
      rp = replay.DSReplayer(n0, SHAPES_DS, extra, SCHED_SPECS,
                             ["ok", "zero"])
    replay.replay_all_paths(acc, sub, rp, sig, case)
  except Exception as e:  # pylint: disable=broad-except
    import traceback
    acc.violation(sig + "|exception", "replay raised %s: %s" %
                  (type(e).__name__, str(e)[:300]),
                  dict(case, trace=traceback.format_exc()[-1500:]))
  return acc.result()
