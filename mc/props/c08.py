"""C08 - block-diagonal semantics: blocks and parameters do not influence each
other.

mcx over the product block layout x per-block gradient scale vector in
{2^-20, 1, 2^20}^#blocks x companion parameter x all histories {gA,gB}^<=T,
three runs each through the real optimizers:
  (a) the blocked tensor, (b) its blocks as separate leaves, (c) the blocked
  tensor next to a companion leaf.
Differential oracle: (a) restricted to a block == (b) for that block (graft
NONE); with SGD grafting (a) == ||g|| / ||concat P_i g_i|| * concat(P_i g_i)
with P_i g_i taken from run (b) under NONE; (a) == (c) on the shared leaf.
"""
import itertools

import numpy as np

from mc.lib import Acc, maxabs

SCALES = [2.0**-20, 1.0, 2.0**20]
# index 3: a block whose Gram matrix overflows (float32: 2^100, float64:
# 2^600).  That block itself is not judged; the *other* blocks must still be
# updated exactly like separate tensors.
OVF = 3


def scale_of(i, dt):
  if i == OVF:
    return 2.0**100 if dt == np.float32 else 2.0**600
  return SCALES[i]


def with_fault(nb):
  return [tuple(OVF if j == i else 1 for j in range(nb)) for i in range(nb)] \
      if nb > 1 else []

DS_LAYOUTS = {
    "4x3/b2": ([4, 3], 2),       # one blocked axis, 2 blocks
    "5x3/b2": ([5, 3], 2),       # ragged: blocks of 2, 2, 1 rows
    "4x4/b2": ([4, 4], 2),       # two blocked axes, 4 blocks
    "3x5/b2": ([3, 5], 2),       # ragged on both axes, 6 blocks
    # single block with equal-sized statistics: alone nothing is padded, the
    # "large" companion (statistics of size 4) forces padding of both
    "3x3/b4": ([3, 3], 4),
    "6x3/b4": ([6, 3], 4),       # blocks (4,3) and (2,3)
}
TF_LAYOUTS = {
    # two blocked axes separated by a small one, two blocks on each
    "6x2x6/b3": ([6, 2, 6], 3),
    "4x2/b2": ([4, 2], 2),
    "6x2/b2": ([6, 2], 2),
    "4x4/b2": ([4, 4], 2),
}
# "first": a vector whose key sorts before the blocked tensor's, so that it
# is visited first wherever the optimizer walks the flattened tree
DS_COMPANIONS = {"small": ([2], 1.0), "large": ([7, 3], 1.0),
                 "scaled": ([3, 2], 2.0**20), "first": ([5], 1.0)}
TF_COMPANIONS = {"small": ([2, 2], 1.0), "other": ([4, 6], 1.0),
                 "scaled": ([2, 2], 2.0**20)}


def block_slices(shape, bs):
  per_axis = []
  for d in shape:
    if 0 < bs < d:
      per_axis.append([(a, min(a + bs, d)) for a in range(0, d, bs)])
    else:
      per_axis.append([(0, d)])
  return [tuple(slice(a, b) for a, b in combo)
          for combo in itertools.product(*per_axis)]


def plan(tier, seed):
  del seed
  depth = 2 if tier == "quick" else 3
  tasks = []
  ds_l = ["4x3/b2", "5x3/b2", "3x3/b4", "6x3/b4"] if tier == "quick" \
      else list(DS_LAYOUTS)
  tf_l = ["4x2/b2", "6x2/b2", "6x2x6/b3"] if tier == "quick" else \
      list(TF_LAYOUTS)
  for name in ds_l:
    shape, bs = DS_LAYOUTS[name]
    nb = len(block_slices(shape, bs))
    vecs = list(itertools.product(range(3), repeat=nb))
    if nb > 4:   # 729 vectors: every vector with at most 3 non-unit scales
      vecs = [v for v in vecs if sum(1 for x in v if x != 1) <= 3]
    vecs = vecs + with_fault(nb)
    for chunk in range(0, len(vecs), 27):
      tasks.append({"name": "ds/%s/v%d" % (name, chunk), "kind": "ds",
                    "layout": name, "vecs": vecs[chunk:chunk + 27],
                    "depth": depth, "profile": {"x64": True},
                    "part": "ds", "weight": len(vecs[chunk:chunk + 27])})
  # the same differential with the blocked tensor optimized under jax.pmap
  # over D devices (statistics are dealt out to the devices and gathered
  # back; more statistics than devices so that every device holds several)
  for name, D in ([("4x3/b2", 2), ("6x3/b4", 2)] if tier == "quick" else
                  [(n, D) for n in ("4x3/b2", "5x3/b2", "6x3/b4", "4x4/b2")
                   for D in (2, 4)]):
    shape, bs = DS_LAYOUTS[name]
    nb = len(block_slices(shape, bs))
    vecs = list(itertools.product(range(3), repeat=nb))
    for chunk in range(0, len(vecs), 27):
      tasks.append({"name": "ds_pmap%d/%s/v%d" % (D, name, chunk),
                    "kind": "ds", "pmap": D, "layout": name,
                    "vecs": vecs[chunk:chunk + 27], "depth": depth,
                    "profile": {"x64": True, "devices": D},
                    "part": "ds_pmap", "weight": 3 * len(vecs[chunk:chunk + 27])})
  for name in tf_l:
    shape, bs = TF_LAYOUTS[name]
    nb = len(block_slices(shape, bs))
    vecs = list(itertools.product(range(3), repeat=nb)) + with_fault(nb)
    for chunk in range(0, len(vecs), 27):
      tasks.append({"name": "tf/%s/v%d" % (name, chunk), "kind": "tf",
                    "layout": name, "vecs": vecs[chunk:chunk + 27],
                    "depth": depth, "profile": {"x64": True},
                    "part": "tearfree", "weight": len(vecs[chunk:chunk + 27])})
  return {
      "tasks": tasks,
      "rule": "block layouts %s (distributed_shampoo) and %s (tearfree) x "
              "every per-block scale vector over {2^-20,1,2^20} (plus one "
              "block at a time with an overflowing Gram matrix) x 4 "
              "companions (one sorted first) x grafting {NONE, SGD} x {jit, pmap over 2 (4) "
              "devices against the separate-leaf jit run} x all histories over "
              "{gA,gB} up to depth %d; state = (layout, scale vector, "
              "history); non-trivial = scale vector with at least two "
              "different scales" % (ds_l, tf_l, depth),
      "bounds": {"depth": depth},
      "assumptions": ["merging is off so that a block and a separate leaf "
                      "get the same interpretation",
                      "blocks are full rank (dyadic patterns), tolerance "
                      "1e-3 of each block's max-norm"],
      "timeout": 3000,
  }


def histories(depth):
  out, frontier = [], [()]
  for _ in range(depth):
    frontier = [h + (e,) for h in frontier for e in ("gA", "gB")]
    out += frontier
  return out


def run_task(task):
  import jax
  import jax.numpy as jnp
  from mc import grads as G
  acc = Acc(task["name"])
  tf = task["kind"] == "tf"
  shape, bs = (TF_LAYOUTS if tf else DS_LAYOUTS)[task["layout"]]
  slices = block_slices(shape, bs)
  nb = len(slices)
  comps = TF_COMPANIONS if tf else DS_COMPANIONS
  dt = np.float64 if tf else np.float32
  base = {e: G.alphabet(tuple(shape), [e], (0, bs))[e].astype(dt)
          for e in ("gA", "gB")}
  cbase = {c: {e: (G.alphabet(tuple(sh), [e], (0, bs))[e] * sc).astype(dt)
               for e in ("gA", "gB")} for c, (sh, sc) in comps.items()}

  def make(graft, shapes, pm=False):
    params_np = {k: G.dyadic(tuple(s), "P" + k).astype(dt)
                 for k, s in shapes.items()}
    params = {k: jnp.asarray(v) for k, v in params_np.items()}
    if tf:
      from mc.props import c07
      opt = c07.build_tearfree(dict(
          grafting_type=graft, block_size=bs, merge_dims=2,
          second_moment_decay=0.5, momentum_decay=0.0, learning_rate=1.0,
          skip_preconditioning_rank1=False))
    else:
      from mc import ds
      opt = ds.build_opt(dict(
          graft_type={"none": 0, "sgd": 1}[graft], block_size=bs, beta1=0.0,
          beta2=0.5, nesterov=False, learning_rate=1.0,
          start_preconditioning_step=0,
          best_effort_shape_interpretation=False),
                         "pmap" if pm else "rep")
    upd = jax.jit(opt.update)
    return opt, upd, params

  D = task.get("pmap", 0)

  def make_pmap(graft, shapes):
    opt, _, params = make(graft, shapes, pm=True)
    devs = jax.devices()[:D]
    assert len(devs) == D, "forced host devices missing"
    rep = lambda t: jax.tree_util.tree_map(
        lambda x: jnp.stack([jnp.asarray(x)] * D), t)
    pupd = jax.pmap(opt.update, axis_name="batch", devices=devs)
    prep = rep(params)

    class Opt:
      @staticmethod
      def init(p):
        return rep(opt.init(p))

    def upd(g, st, _):
      u, s2 = pupd(rep(g), st, prep)
      return {k: v[0] for k, v in u.items()}, s2
    return Opt, upd, params

  cname = lambda c: "a" if c == "first" else "z"
  blk_shapes = {"b%02d" % i: list(base["gA"][sl].shape)
                for i, sl in enumerate(slices)}
  runs = {}
  mk = make_pmap if D else make
  for graft in ("none", "sgd"):
    runs[("a", graft)] = mk(graft, {"w": shape})
    for c, (sh, _) in comps.items():
      runs[("c" + c, graft)] = mk(graft, {"w": shape, cname(c): sh})
  runs[("b", "none")] = make("none", blk_shapes)
  hists = histories(task["depth"])
  sigbase = "C08|" + task["name"]

  def play(key, grads_of):
    opt, upd, params = runs[key]
    states = {(): opt.init(params)}
    outs = {}
    for h in hists:
      g = {k: jnp.asarray(v) for k, v in grads_of(h[-1]).items()}
      u, s2 = upd(g, states[h[:-1]], params)
      states[h] = s2
      outs[h] = {k: np.asarray(v, np.float64) for k, v in u.items()}
    return outs

  for vec in task["vecs"]:
    S = np.ones(shape)
    for i, sl in enumerate(slices):
      S[sl] = scale_of(vec[i], dt)
    gw = {e: (base[e] * S).astype(dt) for e in ("gA", "gB")}
    nontriv = len(set(vec)) > 1
    faulty = [i for i in range(nb) if vec[i] == OVF]
    case0 = {"optimizer": "tearfree" if tf else "distributed_shampoo",
             "layout": task["layout"], "pmap_devices": D,
             "block_scales": [scale_of(i, dt) for i in vec]}
    a_none = play(("a", "none"), lambda e: {"w": gw[e]})
    a_sgd = play(("a", "sgd"), lambda e: {"w": gw[e]})
    b_none = play(("b", "none"), lambda e: {"b%02d" % i: gw[e][sl]
                                           for i, sl in enumerate(slices)})
    for h in hists:
      acc.states += 1
      acc.transitions += 1
      if nontriv:
        acc.nontrivial += 1
      case = dict(case0, history=list(h))
      sig = "%s|%s|%s" % (sigbase, vec, ",".join(h))
      ok = True
      concat = np.zeros(shape)
      for i, sl in enumerate(slices):
        want = b_none[h]["b%02d" % i]
        concat[sl] = want
        got = a_none[h]["w"][sl]
        if i in faulty:
          acc.outcome("overflowing_block_not_judged")
          continue
        if not np.all(np.isfinite(got)) or \
            maxabs(got - want) > 1e-3 * max(maxabs(want), 1e-300):
          acc.outcome("viol_block_vs_leaf")
          acc.violation(sig + "|blk%d" % i, "block %d of the blocked tensor "
                        "is updated differently from the same block as a "
                        "separate tensor: max |diff| %.3g vs max |leaf "
                        "update| %.3g" % (i, maxabs(got - want),
                                          maxabs(want)), dict(case, block=i))
          ok = False
          break
      if ok and not faulty:
        g = gw[h[-1]].astype(np.float64)
        # tearfree emits -lr * step, so does distributed_shampoo
        cn = np.linalg.norm(concat)
        want = concat * (np.linalg.norm(g) / cn) if cn > 0 else concat
        got = a_sgd[h]["w"]
        for i, sl in enumerate(slices):
          if maxabs(got[sl] - want[sl]) > 1e-3 * max(maxabs(want[sl]),
                                                      1e-300):
            acc.outcome("viol_graft_composite")
            acc.violation(sig + "|sgd%d" % i, "with SGD grafting block %d "
                          "is not the separately preconditioned block "
                          "rescaled by the parameter-level norm ratio" % i,
                          dict(case, block=i))
            ok = False
            break
      if ok:
        acc.outcome("blocks_independent")
    # (c) companions: the update of w must not depend on z
    for c in comps:
      for graft, aref in (("none", a_none), ("sgd", a_sgd)):
        if faulty and graft == "sgd":
          continue
        cres = play(("c" + c, graft), lambda e: {"w": gw[e],
                                                  cname(c): cbase[c][e]})
        for h in hists:
          acc.transitions += 1
          want = aref[h]["w"]
          got = cres[h]["w"]
          bad = None
          for i, sl in enumerate(slices):
            if i in faulty:
              continue
            if maxabs(got[sl] - want[sl]) > 1e-3 * max(maxabs(want[sl]),
                                                        1e-300):
              bad = i
              break
          if bad is not None:
            acc.outcome("viol_companion")
            acc.violation("%s|%s|%s|%s|%s" % (sigbase, vec, ",".join(h), c,
                                               graft),
                          "update of the blocked tensor changes when the "
                          "companion parameter '%s' (shape %s, scale %g) is "
                          "present (block %d, graft %s)" %
                          (c, comps[c][0], comps[c][1], bad, graft),
                          dict(case0, history=list(h), companion=c,
                               graft=graft))
          else:
            acc.outcome("companion_independent")
    acc.sample(dict(case0, histories=len(hists)))
  return acc.result()
