"""Evidence aggregation + writer (validated against EVIDENCE.schema.json)."""
import json
import os
import subprocess

ROOT = os.path.dirname(os.path.dirname(os.path.abspath(__file__)))
SCHEMA = "/root/.vp/EVIDENCE.schema.json"


def aggregate(prop, tier, seed, tasks, results, plan):
  cov = {
      "states": 0, "transitions": 0, "traces_validated_against_impl": 0,
      "evaluations": 0, "distinct_nontrivial": 0, "inconclusive": 0,
      "tasks": len(tasks), "outcomes": {}, "parts": {}, "caps_hit": [],
      "samples": [],
  }
  for t, r in zip(tasks, results):
    cov["states"] += int(r.get("states", 0))
    cov["transitions"] += int(r.get("transitions", 0))
    cov["traces_validated_against_impl"] += int(r.get("traces", 0))
    cov["evaluations"] += int(r.get("evaluations", r.get("transitions", 0)))
    cov["distinct_nontrivial"] += int(r.get("nontrivial", 0))
    cov["inconclusive"] += int(r.get("inconclusive", 0))
    for k, v in r.get("outcomes", {}).items():
      cov["outcomes"][k] = cov["outcomes"].get(k, 0) + int(v)
    part = t.get("part", "all")
    p = cov["parts"].setdefault(part, {"tasks": 0, "states": 0,
                                       "transitions": 0})
    p["tasks"] += 1
    p["states"] += int(r.get("states", 0))
    p["transitions"] += int(r.get("transitions", 0))
    for kk, vv in r.items():
      if kk.startswith("worst_"):
        cov[kk] = max(cov.get(kk, 0.0), float(vv))
    for c in r.get("caps", []):
      cov["caps_hit"].append({"task": t.get("name"), "cap": c})
    if len(cov["samples"]) < 6:
      for s in r.get("samples", [])[:1]:
        cov["samples"].append({"task": t.get("name"), "case": s})
  cov["distinct_outcomes"] = len(cov["outcomes"])
  cov["rule"] = plan.get("rule", "")
  cov["bounds"] = plan.get("bounds", {})
  cov["exhaustive"] = (not cov["caps_hit"]) and cov["inconclusive"] == 0 \
      and bool(plan.get("exhaustive", True))
  if "model" in plan:
    cov["model"] = plan["model"]
  if not cov["samples"]:
    cov["samples"] = [{"note": "no sample produced"}]
  return {
      "property_id": prop, "tier": tier, "seed": seed,
      "level": "model_checking", "coverage": cov,
      "assumptions": plan.get("assumptions", []),
      "wall_s": 0.0, "violations": 0,
  }


def _jsonable(o):
  try:
    import numpy as np
    if isinstance(o, (np.integer,)):
      return int(o)
    if isinstance(o, (np.floating,)):
      return float(o)
    if isinstance(o, np.ndarray):
      return o.tolist()
  except Exception:  # pylint: disable=broad-except
    pass
  return str(o)


def write(prop, ev):
  path = os.path.join(ROOT, "evidence", prop + ".json")
  os.makedirs(os.path.dirname(path), exist_ok=True)
  tmp = path + ".tmp"
  with open(tmp, "w") as f:
    json.dump(ev, f, indent=1, default=_jsonable)
  # validate with jsonschema from the tooling venv when it is present
  ok = True
  try:
    code = ("import json,sys,jsonschema;"
            "jsonschema.validate(json.load(open(sys.argv[1])),"
            "json.load(open(sys.argv[2])))")
    p = subprocess.run(["python3-vt", "-c", code, tmp, SCHEMA],
                       capture_output=True, text=True, timeout=60)
    if p.returncode != 0:
      ok = False
      print("EVIDENCE-SCHEMA-ERROR", p.stderr[-1500:])
  except FileNotFoundError:
    pass
  os.replace(tmp, path)
  return ok
