"""Committed known findings (never written at run time).

known_findings.json: {"known": [ {id, property, what, match:{...}} ],
                      "fixed": [ "fixed: property=<id> <commit> <what>" ]}
A violation matches an entry when every key of entry["match"] equals the
corresponding key of the violation's "kf" dict (a small dict of *class
attributes of the failing input/call site* that the property module attaches
to each violation).  "fixed" lines suppress nothing.
"""
import json
import os

ROOT = os.path.dirname(os.path.dirname(os.path.abspath(__file__)))


def load(prop):
  path = os.path.join(ROOT, "known_findings.json")
  if not os.path.exists(path):
    return []
  data = json.load(open(path))
  return [k for k in data.get("known", []) if k["property"] == prop]


def match(known, v):
  kf = v.get("kf") or {}
  for k in known:
    m = k.get("match", {})
    if m and all(kf.get(a) == b for a, b in m.items()):
      return k
  return None
